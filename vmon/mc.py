"""Shared MCMC workload helpers: picklable targets, traced posteriors, seeded sampler factories."""
import time as _time

import numpy as np


# ------------------------------------------------------------------ targets (picklable: module-level classes)
class GaussTarget:
    """log N(mu, C) up to a constant; optional per-call delay plan (schedule perturbation)."""

    def __init__(self, mu, cov, delay=None):
        self.mu = np.asarray(mu, float)
        self.P = np.linalg.inv(np.atleast_2d(np.asarray(cov, float)))
        self.delay = delay
        self.calls = 0

    def __call__(self, t):
        self.calls += 1
        if self.delay is not None:
            self.delay(self.calls)
        r = np.asarray(t, float) - self.mu
        return float(-0.5 * r @ self.P @ r)

    def grad(self, t):
        return -(self.P @ (np.asarray(t, float) - self.mu))


class OffsetTarget:
    """The same density with a constant added to its logarithm (log-densities are defined up to a constant; a log-likelihood of
    thousands of data sits at -1e3 .. -1e7).  Every other attribute is the inner target's."""

    def __init__(self, inner, c):
        self.inner, self.c = inner, float(c)

    def __call__(self, t):
        return self.inner(t) + self.c

    def __getattr__(self, name):   # grad (when the inner target has one) and everything else
        if name in ("inner", "c"):
            raise AttributeError(name)
        return getattr(self.inner, name)


class InjectedInterrupt(KeyboardInterrupt):
    """What the user's Ctrl-C (or a posterior that fails once) looks like to the library."""


class Interruptible:
    """Fault injection at the user's posterior: after arm(k) the k-th following evaluation raises InjectedInterrupt (once)."""

    def __init__(self, inner):
        self.inner = inner
        self.countdown = 0
        self.fired = 0

    def arm(self, k):
        self.countdown = int(k)

    def disarm(self):
        self.countdown = 0

    def __call__(self, t):
        if self.countdown > 0:
            self.countdown -= 1
            if self.countdown == 0:
                self.fired += 1
                raise InjectedInterrupt("injected at the posterior")
        return self.inner(t)

    def __getattr__(self, name):
        if name in ("inner", "countdown", "fired"):
            raise AttributeError(name)
        return getattr(self.inner, name)


class TerraceTarget:
    """A log-density that takes few distinct values: exactly 0.0 on a table-top around the centre, then steps of -h per ring
    (thresholded / top-hat / discrete-valued likelihoods).  Exact ties between different points and log-densities that are
    exactly zero are the normal case here.  The gradient is zero almost everywhere."""

    def __init__(self, centre, radius=1.0, step=0.75, delay=None):
        self.mu = np.asarray(centre, float)
        self.radius, self.step = float(radius), float(step)
        self.delay = delay
        self.calls = 0

    def __call__(self, t):
        self.calls += 1
        if self.delay is not None:
            self.delay(self.calls)
        r = float(np.max(np.abs(np.asarray(t, float) - self.mu))) / self.radius
        return -self.step * float(np.floor(r)) if r >= 1.0 else 0.0

    def grad(self, t):
        return np.zeros(self.mu.size)


class BananaTarget:
    def __init__(self, b=0.5, s=1.0):
        self.b, self.s = b, s

    def __call__(self, t):
        x, y = t[0] / self.s, t[1] / self.s
        return float(-0.5 * (x * x / 4.0 + (y + self.b * (x * x - 4.0)) ** 2) - 0.5 * np.sum((np.asarray(t[2:]) / self.s) ** 2))

    def grad(self, t):
        s = self.s
        x, y = t[0] / s, t[1] / s
        u = y + self.b * (x * x - 4.0)
        g = np.zeros(len(t))
        g[0] = -(x / 4.0 + u * 2 * self.b * x) / s
        g[1] = -u / s
        g[2:] = -np.asarray(t[2:]) / s**2
        return g


class GammaTarget:
    """Product of Gamma(k_i, scale_i) log-densities on x >= 0 (finite everywhere: -1e30-ish slope outside is avoided
    by reflecting |x|, so a limit violation does not hide behind -inf)."""

    def __init__(self, k, scale):
        self.k, self.scale = np.asarray(k, float), np.asarray(scale, float)

    def __call__(self, t):
        z = np.abs(np.asarray(t, float)) / self.scale + 1e-300
        return float(np.sum((self.k - 1) * np.log(z) - z))


class SleepPlan:
    """Deterministic per-call real-time delays: hash of (seed, index, call number); independent of the chain's random stream."""

    def __init__(self, seed, index, base=0.0, jitter=0.0, every=0, stall=0.0, spin=False):
        self.seed, self.index, self.base, self.jitter, self.every, self.stall, self.spin = seed, index, base, jitter, every, stall, spin

    def __call__(self, n):
        h = ((self.seed * 1000003 + self.index * 7919 + n * 104729) % 2147483647) / 2147483647.0
        d = self.base + self.jitter * h
        if self.every and n % self.every == 0:
            d += self.stall
        if d > 0:
            if self.spin:
                t0 = _time.perf_counter()
                while _time.perf_counter() - t0 < d:
                    pass
            else:
                _time.sleep(d)


class Stalled(Exception):
    """Raised by a traced posterior when a single step has evaluated it an absurd number of times."""


class Traced:
    """Wraps a posterior (and optionally its gradient): records every evaluation point and value.
    `limit` bounds the evaluations between two reset() calls (one sampler step): a retry loop that
    cannot accept anything would otherwise never return."""

    def __init__(self, fn, keep=True, limit=200000):
        self.fn = fn
        self.keep = keep
        self.limit = limit
        self.points = []
        self.values = []
        self.n = 0

    def __call__(self, t):
        v = self.fn(t)
        self.n += 1
        if self.keep:
            self.points.append(np.array(t, dtype=float, copy=True))
            self.values.append(v)
            if len(self.values) > self.limit:
                raise Stalled(f"{len(self.values)} posterior evaluations without the step completing")
        return v

    def reset(self):
        self.points, self.values = [], []


# ------------------------------------------------------------------ seeding
def seed_sampler(obj, seed):
    """Give every generator inside a sampler a known state (the samplers create unseeded generators)."""
    obj.rng = np.random.default_rng([int(seed), 0])
    for i, p in enumerate(getattr(obj, "params", []) or []):
        p.rng = np.random.default_rng([int(seed), 1, i])
    return obj


def rng_states(obj):
    st = {"rng": obj.rng.bit_generator.state}
    for i, p in enumerate(getattr(obj, "params", []) or []):
        st[f"p{i}"] = p.rng.bit_generator.state
    return st


def set_rng_states(obj, st):
    import copy

    obj.rng = np.random.default_rng()
    obj.rng.bit_generator.state = copy.deepcopy(st["rng"])
    for i, p in enumerate(getattr(obj, "params", []) or []):
        p.rng = np.random.default_rng()
        p.rng.bit_generator.state = copy.deepcopy(st[f"p{i}"])


KINDS = ["gibbs", "metropolis", "pca", "hmc", "ensemble"]


def make_sampler(kind, posterior, start, rng, grad=None, temperature=1.0, bounds=None, widths=None,
                 inverse_mass=None, epsilon=0.1, alpha=2.0, n_walkers=None, display_progress=False, seed=0):
    """Build a library sampler of the given kind with seeded generators."""
    from inference.mcmc import GibbsChain, PcaChain, HamiltonianChain, EnsembleSampler
    from inference.mcmc.gibbs import MetropolisChain

    start = np.asarray(start, float)
    d = start.size
    if kind in ("gibbs", "metropolis", "pca"):
        cls = {"gibbs": GibbsChain, "metropolis": MetropolisChain, "pca": PcaChain}[kind]
        kw = dict(posterior=posterior, start=start.copy(), temperature=temperature, display_progress=display_progress)
        if not (isinstance(widths, str) and widths == "default"):       # "default": leave the proposal widths to the library
            w = np.asarray(widths, float) if widths is not None else np.full(d, 1.0)
            kw["widths"] = w.copy()
        if kind == "pca" and bounds is not None:
            kw["bounds"] = bounds
        ch = cls(**kw)
    elif kind == "hmc":
        kw = dict(posterior=posterior, start=start.copy(), grad=grad, epsilon=epsilon, temperature=temperature,
                  display_progress=display_progress)
        if bounds is not None:
            kw["bounds"] = bounds
        if inverse_mass is not None:
            kw["inverse_mass"] = inverse_mass
        ch = HamiltonianChain(**kw)
    elif kind == "ensemble":
        nw = n_walkers or max(2 * d + 2, 6)
        pos = start[None, :] + rng.normal(size=(nw, d)) * (np.asarray(widths, float) if widths is not None else 1.0)
        if bounds is not None:
            lo, hi = np.asarray(bounds[0], float), np.asarray(bounds[1], float)
            pos = lo + (hi - lo) * rng.uniform(0.05, 0.95, size=(nw, d))
        kw = dict(posterior=posterior, starting_positions=pos, alpha=alpha, display_progress=display_progress)
        if bounds is not None:
            kw["bounds"] = bounds
        ch = EnsembleSampler(**kw)
    else:
        raise ValueError(kind)
    return seed_sampler(ch, seed)


def full_readout(ch):
    """(samples (L,d), probs (L,)) of the whole recorded history."""
    s = np.asarray(ch.get_sample(burn=0, thin=1), float)
    p = np.asarray(ch.get_probabilities(burn=0, thin=1), float)
    return s, p
