"""C02 - GP regression returns the exact Gaussian-process posterior.

Monitors: post-conditions on the real GpRegressor.__call__ and build_posterior
(both modes) for regressors built with explicit hyper-parameters.
Oracle: closed-form posterior from vmon.ref.gp (reference kernels, plain solves),
tolerance derived from the conditioning of K+S; metamorphic re-runs (training
order, y_err vs y_cov as ndarray / list).
"""
import numpy as np

from vmon.rec import digest
from vmon.util import mk_rng, guarded, Raised
from vmon.ref import gp as R
from vmon import gpgen as G

ID = "C02"
RULE = (
    "seeded (data set, noise specification, mean function, kernel spec, hyper-parameters, query set): n = 2-40 points, d = 1-4, "
    "noise none / y_err / full y_cov given as ndarray or list, every mean x {SE, RQ, sums with WhiteNoise / Heteroscedastic, "
    "change-points with 2-4 kernels (regions may carry their own noise term), sums containing change-points}; means: the three built-in ones and "
    "two user-written sub-classes (one non-linear in a hyper-parameter, one written for one point at a time); queries at, between and far from the data, single and "
    "batched, arrays and lists; judged when cond(K+S) <= 1e10; non-trivial = composite kernel or d >= 2 or non-constant mean "
    "or correlated noise; distinct = distinct (spec, data, theta, queries)"
)
ASSUMPTIONS = [
    "the documented stabilising jitter on the kernel diagonal (bounded by 1e-9 K_ii, checked) is taken from the builder and added to the reference",
    "tolerance 200*eps*cond(K+S) times the magnitude of the terms involved",
]
TIMEOUT = {"quick": 300, "thorough": 1800}
REQUIRED = {"post:__call__": 200, "post:build_posterior": 100, "cases:hetero_d>=2": 5, "cases:y_cov_list": 10,
            "cases:cp": 20, "permutation_reruns": 50, "judged": 150, "hyperparameter_updates": 100}


def jobs(tier, seed):
    n_jobs = 16 if tier == "quick" else 32
    return [{"name": f"gpr-{j}", "seed": seed, "j": j, "n_cases": 100 if tier == "quick" else 600} for j in range(n_jobs)]


def make_problem(rng):
    d = int(rng.choice([1, 1, 2, 2, 3, 4]))
    n = int(rng.choice([2, 3, 5, 8, 13, 20, 30, 40]))
    spec = G.fix_axes(G.random_spec(rng, cp_noise=True), rng, d)
    far = bool(rng.random() < 0.12) and G.count_cp_kernels(spec) == 0   # training inputs far from the origin (time-stamps ...)
    x = G.random_points(rng, n, d, far=far)
    y_scale = 10.0 ** rng.uniform(-2, 2)
    ints = bool(rng.random() < 0.08) and not far
    if ints:
        # integer-valued inputs, targets and errors, handed over in narrow integer types (pixel / channel numbers, counts)
        x = np.stack([rng.choice(np.arange(-120, 121), size=n, replace=False) for _ in range(d)], axis=1).astype(float)
        y_scale = 40.0
    span = np.where(np.ptp(x, axis=0) > 0, np.ptp(x, axis=0), 1.0)
    w = rng.normal(size=d) / span
    y = y_scale * (np.sin(3 * (x - x.mean(0)) @ w) + 0.3 * rng.normal(size=n)) + y_scale * rng.normal() * rng.choice([0, 1, 30])
    if ints:
        y = np.rint(y)
    theta_c = G.random_theta(spec, rng, x, y_scale)
    mean_name = str(rng.choice(G.MEANS))
    if rng.random() < 0.2:
        mean_name = str(rng.choice(["UserDecay", "UserBump"]))   # mean functions written by the user against the documented base class
    if far:
        # a linear / quadratic trend about the centroid of inputs near 1e7 carries the rounding of the centroid itself (eps*abs(x)/extent relative):
        # that is arithmetic, not the library; the far case is about the covariance path
        mean_name = "Constant"
    theta_m = G.random_mean_theta(mean_name, rng, x, y_scale)
    noise = str(rng.choice(["none", "y_err", "y_err", "y_cov"]))
    if noise == "none":
        S = np.zeros((n, n))
        err = None
    elif noise == "y_err":
        err = y_scale * 10.0 ** rng.uniform(-3, 0, size=n)
        if ints:
            err = np.maximum(np.rint(err * 4), 1.0)
        S = np.diag(err**2)
    else:
        err = None
        B = rng.normal(size=(n, max(1, n // 3))) * y_scale * 10.0 ** rng.uniform(-2, -0.5)
        S = B @ B.T + np.diag((y_scale * 10.0 ** rng.uniform(-3, -0.5, size=n)) ** 2)
        S = 0.5 * (S + S.T)
    return dict(d=d, n=n, x=x, y=y, spec=spec, theta_c=theta_c, mean=mean_name, theta_m=theta_m,
                noise=noise, S=S, err=err, y_scale=y_scale, far=far, ints=ints)


def build_regressor(p, rng, form=None, perm=None, noise_as=None):
    """Build the library regressor for problem p. perm reorders the training set."""
    from inference.gp import GpRegressor

    n, d = p["n"], p["d"]
    idx = np.arange(n) if perm is None else perm
    x, y = p["x"][idx], p["y"][idx]
    theta_c = permute_theta(p["spec"], p["theta_c"], idx, n, d)
    kw = {}
    noise_as = noise_as or p["noise"]
    if noise_as == "y_err":
        e = p["err"][idx]
        kw["y_err"] = e if form != "list" else [float(v) for v in e]
    elif noise_as == "y_cov":
        S = p["S"][np.ix_(idx, idx)]
        kw["y_cov"] = S if form != "list" else [[float(v) for v in row] for row in S]
    if form == "list":
        xa = [[float(v) for v in row] for row in x]
        ya = [float(v) for v in y]
    elif form == "flat1d" and d == 1:
        xa, ya = x[:, 0].copy(), y.copy()
    else:
        xa, ya = x.copy(), y.copy()
    if p.get("ints") and form != "list":
        xa = xa.astype(np.int8)
        ya = ya.astype(np.int16 if np.abs(ya).max() < 32000 else np.int32)
        if "y_err" in kw:
            kw["y_err"] = np.asarray(kw["y_err"]).astype(np.uint8 if np.max(kw["y_err"]) < 256 else np.uint16)
    hp = np.concatenate([p["theta_m"], theta_c])
    gp = GpRegressor(xa, ya, hyperpars=hp, kernel=G.build_repo_kernel(p["spec"]), mean=G.build_repo_mean(p["mean"]), **kw)
    return gp, x, y, theta_c


def permute_theta(spec, theta, idx, n, d):
    """Heteroscedastic noise has one hyper-parameter per data point: they follow the points."""
    if spec[0] == "HN":
        return np.asarray(theta)[idx]
    if spec[0] in ("SUM", "CP"):
        subs = spec[1] if spec[0] == "SUM" else spec[2]
        out, pos = [], 0
        for s in subs:
            m = R.n_params(s, n, d)
            out.append(permute_theta(s, theta[pos:pos + m], idx, n, d))
            pos += m
        out.append(theta[pos:])
        return np.concatenate(out)
    return np.asarray(theta)


def make_queries(p, rng):
    x, n, d = p["x"], p["n"], p["d"]
    span = np.where(np.ptp(x, axis=0) > 0, np.ptp(x, axis=0), 1.0)
    if rng.random() < 0.12:
        return x.copy()      # the training inputs themselves, all of them, in their order
    q = []
    for _ in range(int(rng.integers(1, 7))):
        kind = rng.choice(["at", "between", "near", "far"])
        if kind == "at":
            q.append(x[rng.integers(n)].copy())
        elif kind == "between":
            i, j = rng.integers(n, size=2)
            q.append(0.5 * (x[i] + x[j]))
        elif kind == "near":
            q.append(x[rng.integers(n)] + rng.normal(size=d) * span * 0.1)
        else:
            q.append(x.mean(0) + rng.choice([-1, 1], size=d) * span * rng.uniform(3, 30))
    return np.array(q)


def run_job(job, rec):
    from vmon.contracts import attach
    from inference.gp import GpRegressor

    rng = mk_rng(job["seed"], "C02", job["j"])
    eps = np.finfo(float).eps
    att_call = attach(GpRegressor, "__call__")
    att_post = attach(GpRegressor, "build_posterior")

    for c in range(job["n_cases"]):
        p = make_problem(rng)
        desc = G.describe(p["spec"])
        form = str(rng.choice(["array", "array", "list", "flat1d"]))
        rec.context = {"case": c, "spec": desc, "mean": p["mean"], "n": p["n"], "d": p["d"], "noise": p["noise"], "form": form}
        built = guarded(build_regressor, p, rng, form)
        n, d = p["n"], p["d"]
        Kxx0 = R.data_cov(p["spec"], p["x"], p["theta_c"]) + p["S"]
        cond = np.linalg.cond(Kxx0)
        nontrivial = p["spec"][0] in ("SUM", "CP") or d >= 2 or p["mean"] != "Constant" or p["noise"] == "y_cov"
        rec.case(digest(desc, p["x"], p["y"], p["theta_c"], p["theta_m"], p["S"]), nontrivial=nontrivial)
        if R.has_hn(p["spec"]) and d >= 2:
            rec.count("cases:hetero_d>=2")
        if p["noise"] == "y_cov" and form == "list":
            rec.count("cases:y_cov_list")
        if G.count_cp_kernels(p["spec"]) >= 2:
            rec.count("cases:cp")
        if c < 2:
            rec.sample({**rec.context, "theta_cov": p["theta_c"], "theta_mean": p["theta_m"], "x_head": p["x"][:2], "cond": cond})
        if not np.isfinite(cond) or cond > 1e10:
            rec.count("skipped_ill_conditioned")
            continue
        if isinstance(built, Raised):
            rec.violation("raised", f"GpRegressor construction raised {built!r} (cond {cond:.2e})", rec.context)
            continue
        gp, x, y, theta_c = built
        rec.count("judged")

        # documented jitter: builder diagonal minus reference diagonal, bounded and then adopted
        Bd = np.diag(gp.cov.build_covariance(np.asarray(theta_c)))
        Rd = np.diag(R.data_cov(p["spec"], x, theta_c))
        jitter = Bd - Rd
        kdiag = np.diag(R.kernel(p["spec"], x, x, theta_c, n))
        if not rec.check(bool(np.all(jitter >= -1e-11 * Rd.max()) and np.all(jitter <= 1e-9 * kdiag + 1e-11 * Rd.max())),
                         "builder-diagonal", lambda: f"builder diagonal exceeds reference by {jitter}", rec.context):
            continue
        jitter = np.clip(jitter, 0, None)

        q = make_queries(p, rng)
        mu_r, cov_r, Kxx, Kqq = R.posterior(p["spec"], p["mean"], x, y, p["S"], p["theta_m"], theta_c, q, jitter=jitter)
        Kqx = R.kernel(p["spec"], q, x, theta_c, n)
        resid = y - R.mean(p["mean"], x, p["theta_m"], x)
        sol = np.linalg.solve(Kxx, resid)
        fac = 200 * eps * max(cond, 1.0)
        tol_mu = fac * (np.abs(Kqx) @ np.abs(sol) + np.abs(R.mean(p["mean"], q, p["theta_m"], x)) + np.abs(y).max())
        tol_cov = fac * max(np.abs(np.diag(Kqq)).max(), 1e-300) * 4
        var_r = np.diag(cov_r)
        prior_var = np.diag(Kqq)

        # ---- point-wise call (batched)
        qform = str(rng.choice(["array", "list"]))
        qa = q if qform == "array" else [[float(v) for v in row] for row in q]
        if d == 1 and rng.random() < 0.5:
            qa = q[:, 0].copy() if qform == "array" else [float(v) for v in q[:, 0]]
        out = guarded(gp, qa)
        if isinstance(out, Raised):
            rec.violation("raised", f"__call__ raised {out!r}", rec.context)
            continue
        mu, sig = (np.asarray(v, float) for v in out)
        ok_shape = mu.shape == (len(q),) and sig.shape == (len(q),)
        if not rec.check(ok_shape, "call-shape", f"__call__ returned shapes {mu.shape}, {sig.shape} for {len(q)} points", rec.context):
            continue
        rec.check(bool(np.all(np.abs(mu - mu_r) <= tol_mu)), "predictive-mean",
                  lambda: f"{desc}/{p['mean']}: predictive mean differs from the closed form by {np.abs(mu - mu_r).max():.3e} (tol {tol_mu.max():.2e}, cond {cond:.1e})", rec.context)
        rec.check(bool(np.all(np.abs(sig**2 - var_r) <= tol_cov)), "predictive-variance",
                  lambda: f"{desc}: predictive variance differs from the closed form by {np.abs(sig**2 - var_r).max():.3e} (tol {tol_cov:.2e}, cond {cond:.1e})", rec.context)
        rec.check(bool(np.all(sig**2 <= prior_var + tol_cov) and np.all(np.isfinite(sig)) and np.all(sig >= 0)), "variance-out-of-range",
                  lambda: f"{desc}: predictive variance {sig**2} outside [0, prior variance {prior_var}]", rec.context)

        # ---- a repeated call returns the same numbers (no state accumulates between calls)
        out_b = guarded(gp, qa)
        rec.check((not isinstance(out_b, Raised)) and np.array_equal(np.asarray(out_b[0]), mu) and np.array_equal(np.asarray(out_b[1]), sig), "repeated-call-differs",
                  "two identical calls of the regressor returned different predictions", rec.context)

        # ---- single-point call agrees with the batched one
        k = int(rng.integers(len(q)))
        one = q[k] if d > 1 else (q[k] if rng.random() < 0.5 else float(q[k, 0]))
        o1 = guarded(gp, one)
        ok1 = (not isinstance(o1, Raised)) and np.shape(o1[0]) == (1,) and abs(o1[0][0] - mu[k]) <= tol_mu[k] and abs(o1[1][0] ** 2 - sig[k] ** 2) <= tol_cov
        rec.check(ok1, "single-vs-batched", lambda: f"single-point call gave {o1}, batched gave ({mu[k]}, {sig[k]})", rec.context)

        # ---- integer-typed query points give the same answers as the same values as floats
        if c % 3 == 0:
            span_q = np.where(np.ptp(x, axis=0) > 0, np.ptp(x, axis=0), 1.0)
            qi = np.round(q / span_q * 4).astype(int)
            if np.all(np.abs(qi) < 10**6):
                ra, rb = guarded(gp, qi), guarded(gp, qi.astype(float))
                pa, pb = guarded(gp.build_posterior, qi), guarded(gp.build_posterior, qi.astype(float))
                rec.count("integer_query_cases")
                okd = not any(isinstance(v, Raised) for v in (ra, rb, pa, pb)) and all(np.allclose(u, v, rtol=1e-12, atol=1e-300) for u, v in zip(tuple(ra) + tuple(pa), tuple(rb) + tuple(pb)))
                rec.check(okd, "depends-on-dtype-of-points", lambda: f"{desc}: integer-typed query points give {ra!r}, the same points as floats give {rb!r}", rec.context)

        # ---- joint posterior and mean-only
        bp = guarded(gp.build_posterior, qa)
        bm = guarded(gp.build_posterior, qa, mean_only=True)
        if isinstance(bp, Raised) or isinstance(bm, Raised):
            rec.violation("raised", f"build_posterior raised {bp!r} / {bm!r}", rec.context)
            continue
        mu_j, cov_j = np.asarray(bp[0], float), np.asarray(bp[1], float)
        okj = mu_j.shape == (len(q),) and cov_j.shape == (len(q), len(q))
        if not rec.check(okj, "posterior-shape", f"build_posterior shapes {mu_j.shape}, {cov_j.shape}", rec.context):
            continue
        rec.check(bool(np.all(np.abs(mu_j - mu_r) <= tol_mu)), "joint-mean",
                  lambda: f"{desc}: build_posterior mean differs from the closed form by {np.abs(mu_j - mu_r).max():.3e}", rec.context)
        rec.check(bool(np.abs(cov_j - cov_r).max() <= tol_cov), "joint-covariance",
                  lambda: f"{desc}: build_posterior covariance differs from the closed form by {np.abs(cov_j - cov_r).max():.3e} (tol {tol_cov:.2e})", rec.context)
        rec.check(bool(np.all(np.abs(np.asarray(bm, float) - mu_j) <= tol_mu * 1e-3 + 1e-300)), "mean-only-differs",
                  "build_posterior(mean_only=True) differs from the mean of the full call", rec.context)
        rec.check(bool(np.all(np.abs(mu_j - mu) <= tol_mu)) and bool(np.all(np.abs(np.diag(cov_j) - sig**2) <= tol_cov)), "joint-vs-pointwise",
                  "build_posterior disagrees with the point-wise call", rec.context)
        rec.check(bool(np.abs(cov_j - cov_j.T).max() <= tol_cov), "posterior-asymmetric", "posterior covariance not symmetric", rec.context)
        lam = np.linalg.eigvalsh(0.5 * (cov_j + cov_j.T))
        rec.check(lam.min() >= -tol_cov * len(q), "posterior-not-psd", lambda: f"posterior covariance eigenvalue {lam.min():.3e}", rec.context)

        # ---- a request the regressor refuses (a hyper-parameter vector of the wrong length raises ValueError) leaves it as it was
        if rng.random() < 0.3:
            wrong = np.concatenate([p["theta_m"], theta_c, rng.normal(size=int(rng.integers(1, 3)))]) + 0.7
            rj = guarded(gp.set_hyperparameters, wrong)
            rec.count("refused_hyperparameter_updates")
            if isinstance(rj, Raised):
                o_after = guarded(gp, q)
                j_after = guarded(gp.build_posterior, q)
                ok_r = not isinstance(o_after, Raised) and not isinstance(j_after, Raised) and np.array_equal(np.asarray(o_after[0]), np.asarray(mu)) \
                    and np.array_equal(np.asarray(o_after[1]), np.asarray(sig)) and np.array_equal(np.asarray(j_after[0]), mu_j) and np.array_equal(np.asarray(j_after[1]), cov_j)
                rec.check(ok_r, "changed-by-refused-update",
                          lambda: f"{desc}: after set_hyperparameters refused a vector of {wrong.size} values ({rj!r}) the predictions are no longer those made before the call", rec.context)

        # ---- history: the same regressor object after hyper-parameter updates (fresh array, then the same
        #      array object modified in place): predictions must be the closed form for the *current* values
        if rng.random() < 0.6:
            theta_all = np.concatenate([p["theta_m"], theta_c]).astype(float)
            for upd in ("fresh", "in_place", "in_place"):
                k0 = int(rng.integers(theta_all.size))
                if upd == "fresh":
                    theta_all = theta_all.copy()
                from vmon.props.c10 import cp_positions as _cpp
                cp_idx = {len(p["theta_m"]) + a for a, _ in _cpp(p["spec"], n, d, x)} | {len(p["theta_m"]) + a + 1 for a, _ in _cpp(p["spec"], n, d, x)}
                if k0 in cp_idx:
                    continue
                user_shape_par = p["mean"] in ("UserDecay", "UserBump") and k0 == 1       # (a rate / width: of order one whatever the units of y)
                theta_all[k0] += float(rng.uniform(0.2, 0.6)) * (1 if (k0 >= len(p["theta_m"]) or user_shape_par) else p["y_scale"])
                tm2, tc2 = theta_all[: len(p["theta_m"])].copy(), theta_all[len(p["theta_m"]):].copy()
                r = guarded(gp.set_hyperparameters, theta_all)
                rec.count("hyperparameter_updates")
                if isinstance(r, Raised):
                    if isinstance(r.exc, np.linalg.LinAlgError):
                        break
                    rec.violation("raised", f"set_hyperparameters raised {r!r}", rec.context)
                    break
                K2 = R.data_cov(p["spec"], x, tc2) + p["S"]
                c2 = np.linalg.cond(K2)
                if not np.isfinite(c2) or c2 > 1e10:
                    break
                mu2, cov2, _, Kqq2 = R.posterior(p["spec"], p["mean"], x, y, p["S"], tm2, tc2, q, jitter=jitter * np.exp(2 * (tc2[0] - theta_c[0])) if p["spec"][0] in ("SE", "RQ") else jitter)
                o2 = guarded(gp, q)
                f2 = 400 * eps * max(c2, 1.0)
                sol2 = np.linalg.solve(K2, y - R.mean(p["mean"], x, tm2, x))
                t_mu = f2 * (np.abs(R.kernel(p["spec"], q, x, tc2, n)) @ np.abs(sol2) + np.abs(R.mean(p["mean"], q, tm2, x)) + np.abs(y).max()) + 1e-9 * np.abs(mu2).max()
                t_cv = f2 * max(np.abs(np.diag(Kqq2)).max(), 1e-300) * 4 + 2e-9 * np.abs(np.diag(Kqq2)).max()
                ok = (not isinstance(o2, Raised)) and bool(np.all(np.abs(o2[0] - mu2) <= t_mu)) and bool(np.all(np.abs(o2[1] ** 2 - np.diag(cov2)) <= t_cv))
                rec.check(ok, "stale-after-hyperparameter-update",
                          lambda: f"{desc}: after set_hyperparameters ({upd} array, entry {k0} changed) predictions are not the closed form for the new values: "
                                  f"mean error {np.abs(o2[0] - mu2).max() if not isinstance(o2, Raised) else o2}", rec.context)
                if not ok:
                    break

        # ---- metamorphic: order of the training points
        perm = rng.permutation(n)
        bperm = guarded(build_regressor, p, rng, "array", perm)
        rec.count("permutation_reruns")
        if isinstance(bperm, Raised):
            rec.violation("raised", f"construction with permuted training set raised {bperm!r}", rec.context)
        else:
            op = guarded(bperm[0], q)
            okp = (not isinstance(op, Raised)) and bool(np.all(np.abs(op[0] - mu) <= 2 * tol_mu)) and bool(np.all(np.abs(op[1] ** 2 - sig**2) <= 2 * tol_cov))
            rec.check(okp, "training-order-dependent",
                      lambda: f"{desc}: predictions change with the order of the training points: {op} vs {(mu, sig)}", rec.context)

        # ---- metamorphic: y_err = s  vs  y_cov = diag(s^2)  (ndarray and list)
        if p["noise"] == "y_err":
            for f2 in ("array", "list"):
                p2 = dict(p)
                b2 = guarded(build_regressor, p2, rng, f2, None, "y_cov")
                rec.count("yerr_vs_ycov_reruns")
                if isinstance(b2, Raised):
                    rec.violation("raised", f"y_cov=diag(y_err^2) given as {f2} raised {b2!r}", rec.context)
                    continue
                o2 = guarded(b2[0], q)
                ok2 = (not isinstance(o2, Raised)) and bool(np.all(np.abs(o2[0] - mu) <= tol_mu)) and bool(np.all(np.abs(o2[1] ** 2 - sig**2) <= tol_cov))
                rec.check(ok2, "yerr-vs-ycov", lambda: f"y_cov=diag(y_err^2) ({f2}) gives different predictions: {o2} vs {(mu, sig)}", rec.context)

    # ---- regressors built with the default kernel / mean classes do not share state
    for c in range(max(3, job["n_cases"] // 10)):
        probs = []
        for k in range(2):
            d = int(rng.choice([1, 2]))
            n = int(rng.choice([4, 7, 11]))
            x = G.random_points(rng, n, d)
            y = rng.normal(size=n)
            err = 10.0 ** rng.uniform(-1.5, -0.5, size=n)
            hp = np.concatenate([[rng.normal()], G.random_theta(("SE",), rng, x, 1.0)])
            probs.append((x, y, err, hp, guarded(GpRegressor, x, y, y_err=err, hyperpars=hp)))
        dctx = {"default_class_pair": c}
        rec.context = dctx
        rec.count("cases:default_class_pairs")
        for which in (0, 1):
            x, y, err, hp, g = probs[which]
            if isinstance(g, Raised):
                rec.violation("raised", f"GpRegressor with default kernel raised {g!r}", dctx)
                continue
            n = len(y)
            q = x[:2] + 0.3 * np.exp(hp[2:])
            jit = np.exp(2 * hp[1]) * 1e-12 * np.ones(n)
            mu_r, cov_r, Kxx, _ = R.posterior(("SE",), "Constant", x, y, np.diag(err**2), hp[:1], hp[1:], q, jit)
            o = guarded(g, q)
            cnd = np.linalg.cond(Kxx)
            okd = (not isinstance(o, Raised)) and bool(np.all(np.abs(o[0] - mu_r) <= 1e-9 * max(cnd, 1) * (np.abs(y).max() + abs(hp[0]) + 1))) \
                and bool(np.all(np.abs(o[1] ** 2 - np.diag(cov_r)) <= 1e-9 * max(cnd, 1) * np.exp(2 * hp[1])))
            rec.check(okd, "objects-share-state", lambda: f"regressor {which} of two built with the default kernel/mean classes does not return its own closed-form posterior: {o!r} vs {mu_r}", dctx)

    rec.count("post:__call__", att_call.calls)
    rec.count("post:build_posterior", att_post.calls)
    att_call.detach()
    att_post.detach()
