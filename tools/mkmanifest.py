#!/usr/bin/env python3
"""Regenerates MANIFEST.json from the table below; a property is claimed only if
its module vmon/props/cXX.py exists."""
import json, os
HERE = os.path.dirname(os.path.dirname(os.path.abspath(__file__)))
T = {}
def P(pid, technique, text, note, ref):
    T[pid] = dict(technique=technique, text=text, note=note, ref=ref)

P("C01", "trace monitor: MH decision ledger rebuilt from posterior-call trace + calibration z-tests; proposal-reversibility and attempt-weighted distribution tests",
  "Every accept/reject decision observed in real sampler runs is reconstructed from the trace of posterior evaluations and judged against the Metropolis-Hastings probability for the move proposed (exact for uphill moves, calibrated z-test for downhill moves); proposals are tested for reversibility; attempt-weighted chain statistics are compared with targets of known law. Finite-run statistical statements with a family-wise false-alarm budget of 1e-6 and two-stage confirmation; says nothing about trajectories not produced.",
  "trusts numpy's generators and scipy.stats reference CDFs; long-run convergence is restated as finite-run tests with attempt weights; the retry-until-accept jump-chain bias is a recorded known finding (KNOWN_FINDINGS.txt); runs include a mid-run save/load, log-density offsets, and tempering runs whose stored log-probabilities are monitored through the C08 recorder", "DESIGN.md §5 C01, §4")
P("C02", "contract monitor: closed-form GP posterior reference model on every GpRegressor call",
  "Post-conditions on the real GpRegressor.__call__/build_posterior compare every prediction of seeded random models (all kernels, composites, change-points, noise kernels, mean functions, d=1..4, y_err/y_cov) with an independently written closed-form posterior (plain solves) under a conditioning-derived tolerance, plus metamorphic re-runs (permutation, y_err vs y_cov).",
  "reference kernels written from the documented formulas; ill-conditioned systems (cond>1e10) are skipped and counted", "DESIGN.md §5 C02")
P("C03", "state invariant at quiescent points (also after an interruption injected at the user's posterior) + independence twin-run monitor",
  "After every step/advance/exchange of every sampler the recorded log-probabilities are re-derived from the recorded samples with the harness's own temperature; mode() is checked against the record, including after exchanges of real tempering runs (ladders in any order), after walkers exhaust their attempts and after a KeyboardInterrupt raised from inside the posterior; samplers built from shared inputs are interleaved and compared bit-for-bit with solo twins.",
  "user posterior is deterministic; comparisons at 1e-12 relative", "DESIGN.md §5 C03")
P("C04", "trace monitor on posterior/gradient arguments + contracts on Bounds.reflect/reflect_momenta, on the Gibbs proposal functions (observed raw draw) and on bounded_leapfrog (momentum carried along observed positions) with exact rational fold reference + shadow model of limits in force",
  "Every point reaching the user's posterior/gradient and every stored sample is checked against a shadow model of the limits in force across random programs of limit calls; the fold map is compared with an exact-rational reference (identity inside, symmetric fold outside, momentum flipped iff odd fold count), for Bounds, for the Gibbs proposals (raw draw observed through a generator proxy) and for whole bounded trajectories; refused limit requests are part of the programs.",
  "containment judged at 4 ulp of the limit scale", "DESIGN.md §5 C04, §4.3")
P("C05", "contract monitor: scipy.stats reference densities, quadrature normalisation, Richardson derivatives",
  "Post-conditions on __call__/gradient/cost/cost_gradient of the three likelihood classes against scipy.stats log-densities, unit normalisation by quadrature over the datum, and analytic/numerical derivatives through known Jacobians.",
  "trusts scipy.stats.norm/cauchy/logistic and scipy.integrate.quad", "DESIGN.md §5 C05")
P("C06", "contract monitor: reference log-densities, PIT/KS tests of draws, independent index-routing oracle",
  "Prior classes are checked against reference densities, quadrature normalisation, KS tests of their draws, and an oracle that does its own index routing for JointPrior values, gradients, bounds and samples over random partitions/permutations; Posterior sums and initial-guess selection are checked exactly against recorded prior draws.",
  "module RNGs are replaced by seeded generators; KS tests at family-wise 1e-6 with two-stage confirmation", "DESIGN.md §5 C06")
P("C07", "direct monitoring of the leapfrog map on real chain objects: reversibility, Jacobian determinant, energy-error order, kinetic-energy/momentum law, finite-difference gradient",
  "The trajectory map of real HamiltonianChain objects is driven over seeded potentials, masses, temperatures, boxes and step sizes and judged for time-reversibility, unit Jacobian determinant, second-order energy error, consistency of kinetic energy with the momentum law, and accuracy of the fallback gradient.",
  "smooth well-conditioned potentials; kinked (wall-hit) finite-difference Jacobians and wall-grazing trajectories are skipped and counted; two recorded known findings: matrix-mass x bounds x reflection irreversibility, first-order energy error of reflecting trajectories", "DESIGN.md §5 C07")
P("C08", "history monitor on the parallel-tempering pipes (RecordingConn) + snapshot invariants + schedule perturbation with identical-result oracle",
  "Real ParallelTempering runs are recorded at the parent side of every pipe and through return_chains snapshots; exchange rounds are checked for matching, acceptance calibration, exact hand-over and re-tempering; the same seeded program is re-run under perturbed worker schedules (delays, slow worker, affinity) and must return identical chains; shutdown must terminate all workers; the pairing routines are contract-checked on ladders of 1-40 chains; targets include sharply peaked and terraced (tied) log-densities.",
  "sampled schedules, not all interleavings; watchdog expiry is inconclusive", "DESIGN.md §5 C08")
P("C09", "state-equivalence monitor: read-out comparison and bit-identical continuation of saved/reloaded samplers vs never-saved twins",
  "For every sampler class and configuration, at save points before/after adaptation events, the reloaded object must report the same read-outs and tuning state, support the same calls, be saveable again and, with synchronised generators, continue bit-identically to the original.",
  "generator state is copied by the harness as the property allows", "DESIGN.md §5 C09")
P("C10", "contract monitor: symmetry/PSD, builder-vs-pairwise, Richardson hyper-parameter gradients, independent slicing oracle for composites",
  "Every kernel, sum and change-point combination (2-4 kernels, nested) and every mean function is evaluated on seeded point sets in 1-3 dimensions and judged for symmetry, positive semi-definiteness, agreement of the fast builder with pairwise evaluation up to the documented diagonal terms, exact hyper-parameter gradients and composite concatenation.",
  "gradient comparison at 1e-6 relative against Richardson central differences", "DESIGN.md §5 C10")
P("C11", "contract monitor: MVN log-density reference, explicit leave-one-out refits, Richardson gradients, selection post-conditions",
  "marginal_likelihood, loo_likelihood, loo_predictions and their gradient variants are compared with an independent MVN log-density, n explicit refits with one point removed, and numerical gradients; automatically selected hyper-parameters must lie in the bounds and not score below the box centre.",
  "reference kernels; cond>1e10 skipped", "DESIGN.md §5 C11")
P("C12", "contract monitor: exact O(nm) kernel sums with analytic truncation bound, monotonicity, metamorphic permutation/affine re-runs",
  "GaussianKDE pdf/cdf are compared with exact kernel sums under the analytic truncation bound, judged for non-negativity, monotone CDF with limits 0/1, order independence, scalar/array agreement and affine covariance for user, rule-of-thumb and cross-validated bandwidths, with queries placed at region edges.",
  "numpy's global RNG is seeded for the CV sub-sampling path", "DESIGN.md §5 C12")
P("C13", "contract monitor: brute-force shortest-window oracle + metamorphic re-runs on every sample_hdi call",
  "A post-condition on the real sample_hdi checks end points, coverage (exact rational arithmetic) and optimality by brute force over sorted windows, plus column-wise, permutation and positive-affine metamorphic relations and input immutability over seeded samples of many shapes, dtypes and fractions.",
  "affine covariance compared at 16 ulp; end points only when the optimum is unique", "DESIGN.md §5 C13")
P("C14", "contract monitor on the read-out getters with an independent slicing oracle",
  "For every sampler the four read-outs and get_interval/get_marginal are compared with the oracle's own burn/thin/top-fraction selection computed from the full chain, over seeded chain lengths, burn, thin, fractions and counts.",
  "rows are matched to the full chain exactly", "DESIGN.md §5 C14")
P("C15", "state invariant after advance/take_step programs; pool-vs-serial twin comparison; virtual-clock monitor of run_for",
  "Random programs of advance(m)/take_step calls must add exactly m samples with consistent counters; ChainPool results must equal serially advanced deep copies bit-for-bit; run_for is driven on a virtual clock with step costs from microseconds to minutes and must keep stepping until the budget is used and then stop (single chains, and ParallelTempering.run_for with swap intervals 1-400); a sampler written by the user on the MarkovChain base class is advanced the same way.",
  "time is virtual: the `time` name in inference.mcmc.base is replaced", "DESIGN.md §5 C15")
P("C16", "contract monitor: Richardson derivatives of the real predictions + reference gradient covariance",
  "gradient() and spatial_derivatives() of seeded regressors (d=1-4, all mean functions, single and batched queries) are compared with numerical derivatives of the regressor's own predictions and with the closed-form gradient covariance.",
  "SquaredExponential kernel only (the only one supporting derivatives)", "DESIGN.md §5 C16")
P("C17", "contract monitor: gain-form linear-Gaussian posterior reference, MVN evidence, Richardson gradient",
  "GpLinearInverter results for seeded tall/wide/square/rank-deficient model matrices are compared with an independent gain-form posterior, judged for symmetry/PSD/shrinkage, and the evidence and its gradient with an MVN log-density and numerical derivatives.",
  "cond>1e10 skipped and counted", "DESIGN.md §5 C17")
P("C18", "contract monitor: quadrature of the EI definition, branch-reach counters, self-validating numerical gradients, propose/add state invariants",
  "Acquisition values are compared with direct quadrature of their definitions for z from -40 to +5 (both EI branches must be reached, proven by counters of monitored evaluations with z < -3 and z >= -3, plus points bisected onto both sides of the switch), opt_func_gradient with numerical derivatives, proposals with the bounds, and add_evaluation with the data/incumbent/caller-array invariants.",
  "trusts scipy.integrate.quad on a smooth, factored integrand", "DESIGN.md §5 C18")
P("C19", "contract monitor: high-accuracy quadrature of the estimator's own pdf; metamorphic shift/scale re-runs",
  "For GaussianKDE and UnimodalPdf fitted to seeded samples: unit normalisation, cdf = integral of pdf, interval mass and end-density equality (fractions 0.05-0.99, UnimodalPdf also to 0.9995), mode optimality, moments vs centred quadrature, and covariance under shift/scale.",
  "UnimodalPdf re-fits are compared at optimiser accuracy; a KDE mode that is only the best point of its sample-derived search bracket, an interval search that stalls with an end in an empty region, and one that stops before convergence, are recorded known findings; intervals are not judged for KDEs with a cross-validated bandwidth nor where a KDE interval end sits on a tail bump (plateau clause, counted)", "DESIGN.md §5 C19")
P("C20", "contract monitor: exact piecewise-quadratic CDF (PIT/KS + chi-square), true-conditional comparison on the grid",
  "piecewise_linear_sample draws are tested against the exact CDF of the tabulated piecewise-linear density on uniform and non-uniform grids; get_conditionals output is checked for normalisation, proportionality to the true conditional, coverage of the high-density region and containment; conditional_sample for containment.",
  "module RNG is seeded; KS/chi-square at family-wise 1e-6 with two-stage confirmation", "DESIGN.md §5 C20")

checks, na = [], []
for pid, d in sorted(T.items()):
    if os.path.exists(os.path.join(HERE, "vmon", "props", pid.lower() + ".py")):
        checks.append({
            "property_id": pid,
            "quick_cmd": f"./check {pid} --tier quick",
            "thorough_cmd": f"./check {pid} --tier thorough",
            "evidence_file": f"/verif/evidence/{pid}.json",
            "replay_cmd_template": f"./check {pid} --replay {{path}}",
            "engine": "vmon",
            "level_claimed": {"category": "exploration", "text": d["text"], "design_ref": d["ref"]},
            "level_note": d["note"],
            "technique": "runtime monitoring - " + d["technique"],
        })
    else:
        na.append({"property_id": pid, "reason": "monitor not built yet in this round (design in DESIGN.md); not claimed until its check exists and is silent on the unchanged tree"})
M = {
    "version": 1,
    "setup_cmd": "/venv/bin/python tools/setup.py",
    "hooks": {
        "guard": "INFERENCE_TOOLS_VERIF",
        "enable": "no source hooks exist: all monitors are attached from the harness at run time (class-level wrappers, traced callables, pipe proxies). Workers export INFERENCE_TOOLS_VERIF=1 for uniformity; the repository never reads it.",
        "baseline_off_cmd": "cd /repo && /venv/bin/python -m pytest -ra -q -p no:cacheprovider --timeout=900 --continue-on-collection-errors",
        "source_commits": [],
        "add_only": True,
    },
    "engines": [{"name": "vmon", "path": "/verif/vmon", "serves_properties": [c["property_id"] for c in checks],
                 "kind_free_text": "runtime monitoring: seeded hostile workloads drive the real code in fresh interpreters; contract/trace/state monitors with independent reference oracles decide; three-valued verdicts"}],
    "checks": checks,
    "not_applicable": na,
    "notes": "Exit codes: 0 held / 1 VIOLATION / 2 INCONCLUSIVE. Known findings in KNOWN_FINDINGS.txt. VERIF_SEED and VERIF_TIER are honoured. VERIF_REPO selects the tree under test (default /repo).",
}
json.dump(M, open(os.path.join(HERE, "MANIFEST.json"), "w"), indent=1)
print(len(checks), "claimed;", len(na), "not yet")
