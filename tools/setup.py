"""MANIFEST.setup_cmd: nothing to build (pure-Python harness, no third-party
packages beyond the repository's own numpy/scipy/matplotlib); verify they import."""
import sys
import numpy, scipy, matplotlib  # noqa
sys.path.insert(0, "/repo")
import inference  # noqa
print("setup ok:", sys.version.split()[0], numpy.__version__, scipy.__version__)
