"""Aggregate job results into evidence, replay files, and the three-valued verdict."""
import hashlib
import json
import os
import re
import time
from collections import Counter

from vmon.boot import VERIF_DIR

KNOWN = os.path.join(VERIF_DIR, "KNOWN_FINDINGS.txt")


def known_findings(prop):
    """Lines `finding: property=<id> key=<mechanism> <what fails>` (never written at run time)."""
    out = {}
    if os.path.exists(KNOWN):
        for line in open(KNOWN):
            m = re.match(r"\s*finding:\s*property=(\S+)\s+key=(\S+)\s*(.*)", line)
            if m and m.group(1) == prop:
                out[m.group(2)] = m.group(3).strip()
    return out


def finish(prop, tier, seed, rule, results, t0, required=None, extra=None, assumptions=None):
    required = required or {}
    counters = Counter()
    nontrivial = set()
    evaluations = 0
    samples = []
    viols = []
    n_viol = 0
    inconclusive = []
    notes = []
    for r in results:
        evaluations += r["evaluations"]
        nontrivial.update(r["nontrivial"])
        counters.update(r["counters"])
        n_viol += r["n_violations"]
        for v in r["violations"]:
            viols.append((r["job"], v))
        for s in r["samples"]:
            if len(samples) < 6:
                samples.append(s)
        inconclusive.extend(r["inconclusive"])
        if r.get("notes"):
            notes.append({"job": r["job"].get("name", ""), **r["notes"]})

    for name, minimum in required.items():
        if counters.get(name, 0) < minimum:
            inconclusive.append(
                f"monitor counter {name}={counters.get(name, 0)} below required {minimum}"
            )

    known = known_findings(prop)
    known_hit = {}
    unknown = []
    for job, v in viols:
        if v["key"] in known:
            known_hit.setdefault(v["key"], v)
        else:
            unknown.append((job, v))

    lines = []
    for key, v in known_hit.items():
        lines.append(f"KNOWN-FINDING: property={prop} key={key} {known[key]} [observed: {v['msg'][:160]}]")

    replay_paths = []
    if unknown:
        os.makedirs(os.path.join(VERIF_DIR, "replays"), exist_ok=True)
        seen = set()
        for job, v in unknown:
            if v["key"] in seen and len(replay_paths) >= 1:
                continue
            seen.add(v["key"])
            blob = json.dumps({"job": job, "violation": v}, sort_keys=True, default=str)
            h = hashlib.sha1(blob.encode()).hexdigest()[:10]
            path = os.path.join(VERIF_DIR, "replays", f"{prop}-{h}.json")
            with open(path, "w") as f:
                json.dump(
                    {"property": prop, "tier": tier, "seed": seed, "job": job, "violation": v},
                    f, indent=1, default=str,
                )
            replay_paths.append((path, v))
            if len(replay_paths) >= 5:
                break
        for path, v in replay_paths:
            lines.append(f"VIOLATION property={prop} replay={path}")
            lines.append(f"  mechanism={v['key']}: {v['msg'][:400]}")

    status = "violated" if unknown else ("inconclusive" if inconclusive else "held")
    if status == "inconclusive":
        lines.append(f"INCONCLUSIVE property={prop} reason={inconclusive[0][:600]}")

    coverage = {
        "evaluations": int(evaluations),
        "distinct_nontrivial": len(nontrivial),
        "rule": rule,
        "samples": samples if samples else [{"note": "no sample recorded"}],
        "monitor_counters": dict(sorted(counters.items())),
        "jobs": len(results),
        "verdict": status,
        "known_findings_reproduced": sorted(known_hit),
        "inconclusive_reasons": inconclusive[:5],
    }
    if notes:
        coverage["observations"] = notes[:40]
    if extra:
        coverage.update(extra)
    evidence = {
        "property_id": prop,
        "tier": tier,
        "seed": int(seed),
        "level": "exploration",
        "coverage": coverage,
        "assumptions": assumptions or [],
        "wall_s": round(time.time() - t0, 2),
        "violations": len(unknown),
    }
    ev_dir = os.environ.get("VERIF_EVIDENCE_DIR") or os.path.join(VERIF_DIR, "evidence")
    os.makedirs(ev_dir, exist_ok=True)
    with open(os.path.join(ev_dir, f"{prop}.json"), "w") as f:
        json.dump(evidence, f, indent=1, sort_keys=True, default=str)

    for line in lines:
        print(line)
    print(
        f"{prop} [{tier}] seed={seed}: {status}; {evaluations} cases, "
        f"{len(nontrivial)} distinct non-trivial, {counters.get('oracle_evaluations', 0)} oracle evaluations, "
        f"{len(unknown)} violations, {len(known_hit)} known findings, {evidence['wall_s']}s"
    )
    return {"violated": 1, "inconclusive": 2, "held": 0}[status]
