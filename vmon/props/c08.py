"""C08 - parallel-tempering exchanges are correct and independent of scheduling.

Monitors (real ParallelTempering objects, real worker processes):
 * history monitor  - RecordingConn proxies on the parent side of every pipe; the recorded
                      history is decoded offline into rounds (position requests, replies,
                      position updates) and checked: consistent exchange messages, number of
                      rounds and steps ordered by advance(n, swap_interval);
 * snapshot monitor - return_chains() before and after each explicit swap(): matching of the
                      proposed pairs, always-exchange when the rule gives probability one,
                      exact hand-over and re-tempering, untouched history, untouched bystanders,
                      and the recorded-probability invariant (C03) on every returned chain;
 * calibration      - accepted/proposed exchanges against min(1, exp((1/Ti - 1/Tj)(Lj - Li)))
                      with L from the harness's own evaluation (martingale z, two-stage);
 * schedule monitor - the same seeded call program is executed under perturbed schedules
                      (posterior delays, one slow worker, stalls, reply delays in reverse index
                      order, busy-spin, all workers pinned to one core, niceness) and every
                      returned chain and swap counter must be identical to the unperturbed run;
 * shutdown monitor - all workers exit (code 0) when shutdown() is called.
"""
import contextlib
import io
import os
import random
import threading
import time

import numpy as np

from vmon.rec import digest
from vmon.util import mk_rng, guarded, Raised
from vmon import mc, ptmon, stats as st

ID = "C08"
RULE = (
    "seeded scenarios: 1-8 chains (Gibbs, PCA, Hamiltonian, mixed), ladders tight / wide / unsorted, 1-2 dimensions, random "
    "programs of take_steps / swap / advance(n, swap_interval) / return_chains with swap_interval from 1 to > n, display on/off; "
    "each program re-run under 5 (quick) / 12 (thorough) perturbed schedules; non-trivial = >= 2 chains; "
    "distinct = distinct (scenario, schedule)"
)
ASSUMPTIONS = [
    "sampled schedules, not all interleavings; a reply that does not arrive within 120 s is inconclusive unless the worker has died",
    "exchange calibration: first-stage p < 1e-4, confirmed at p < 1e-7 on a fresh 4x longer run",
]
TIMEOUT = {"quick": 500, "thorough": 2800}
REQUIRED = {"scenarios": 16, "schedule_runs": 60, "rounds_decoded": 300, "explicit_swaps_checked": 150, "exchanges_accepted": 60,
            "exchanges_rejected": 30, "advance_calls_checked": 16, "shutdowns_checked": 60, "chains_compared_across_schedules": 150,
            "cases:unsorted_ladder": 1, "cases:odd_chain_count": 2, "cases:sharp_target": 2, "cases:terraced_target": 2, "exchanges_tied": 20, "pairings:calls": 20000, "scenarios:large_ladder": 2, "cases:single_chain": 1, "returned_rows_rederived": 2000, "run_for_calls_checked": 8}


def jobs(tier, seed):
    n_jobs = 16 if tier == "quick" else 32
    out = [{"name": f"pt-{j}", "seed": seed, "j": j, "n_scen": 1 if tier == "quick" else 3,
            "n_sched": 5 if tier == "quick" else 12, "calib_rounds": 60 if tier == "quick" else 250} for j in range(n_jobs)]
    out.append({"name": "pairings", "seed": seed, "j": 900, "mode": "pairings", "calls": 1500 if tier == "quick" else 12000})
    out.append({"name": "large-ladder", "seed": seed, "j": 901, "mode": "large", "sizes": [10, 13] if tier == "quick" else [10, 11, 13, 16]})
    return out


def pairing_contract(job, rec):
    """The pairing routines of the real class, driven on ladders of 1..40 chains (they use only N_chains and the generators):
    every proposed set of pairs must be a matching - no chain twice, no chain with itself, indices in range, N // 2 pairs."""
    from inference.mcmc import ParallelTempering
    from vmon.contracts import attach

    rng = mk_rng(job["seed"], "C08-pairs")

    def post(result, self):
        pairs = [(int(a), int(b)) for a, b in result]
        flat = [i for p in pairs for i in p]
        N = self.N_chains
        rec.counters["oracle_evaluations"] += 1
        rec.check(len(flat) == len(set(flat)) and all(a != b for a, b in pairs) and all(0 <= i < N for i in flat) and len(pairs) == N // 2, "pairs-not-a-matching",
                  lambda: f"{N} chains: the proposed pairs {pairs} are not {N // 2} disjoint pairs of distinct chains", {"chains": N})

    atts = [attach(ParallelTempering, m, post=post) for m in ("tight_pairs", "uniform_pairs")]

    class Ladder:   # the attributes the pairing routines read
        tight_pairs = ParallelTempering.tight_pairs
        uniform_pairs = ParallelTempering.uniform_pairs

    for N in range(1, 41):
        lad = Ladder()
        lad.N_chains = N
        lad.rng = np.random.default_rng(int(rng.integers(2**63)))
        random.seed(int(rng.integers(2**31)))
        rec.case(digest("pairings", N), nontrivial=N >= 2)
        shapes = set()
        for _ in range(job["calls"] if N >= 9 else max(job["calls"] // 10, 50)):
            for m in ("tight_pairs", "uniform_pairs"):
                r = guarded(getattr(lad, m))
                if isinstance(r, Raised):
                    rec.violation("raised", f"{m}() with {N} chains raised {r!r}", {"chains": N})
                    break
                if m == "tight_pairs":
                    shapes.add(tuple(sorted((int(a), int(b)) for a, b in r)))
        rec.count("pairings:distinct_tight_matchings", len(shapes))
    rec.count("pairings:calls", sum(a.calls for a in atts))
    for a in atts:
        a.detach()


# ------------------------------------------------------------------ scenario construction
def make_spec(rng, j, k):
    n = [2, 3, 4, 5, 8, 1, 2, 3][(j + 3 * k) % 8]
    d = int(rng.choice([1, 2]))
    kinds = [str(rng.choice(["gibbs", "gibbs", "pca", "hmc"])) for _ in range(n)]
    if rng.random() < 0.5:
        kinds = [kinds[0]] * n
    ladder = str(rng.choice(["tight", "wide", "unsorted"])) if n >= 2 else "tight"
    if n >= 2 and (j + k) % 4 == 1:
        ladder = "unsorted"   # every run has some ladders that are not in increasing order
    if ladder == "tight":
        temps = list(np.cumprod([1.0] + list(rng.uniform(1.2, 1.8, size=n - 1))))
    elif ladder == "wide":
        temps = list(np.cumprod([1.0] + list(rng.uniform(2.5, 8.0, size=n - 1))))
    else:
        temps = list(np.cumprod([1.0] + list(rng.uniform(1.5, 5.0, size=n - 1))))
        perm = rng.permutation(n)
        while n > 1 and np.array_equal(perm, np.arange(n)):
            perm = rng.permutation(n)
        temps = [temps[i] for i in perm]
    prog = []
    for _ in range(int(rng.integers(4, 9))):
        r = rng.random()
        if r < 0.3:
            prog.append(("take_steps", int(rng.integers(1, 6))))
        elif r < 0.65:
            prog.append(("swap", 0))
        elif r < 0.9:
            nn = int(rng.choice([0, 3, 7, 10, 12, 25, 50, 61, 100, 130]))
            si = int(rng.choice([1, 2, 3, 5, 10, 40]))   # n // swap_interval runs from 0 to 130, hitting 50 exactly (the progress grouping changes at 50 cycles)
            prog.append(("advance", (nn, si)))
        else:
            prog.append(("return_chains", 0))
    prog.append(("swap", 0))
    A = rng.normal(size=(d, d))
    # a quarter of the scenarios have a sharply peaked log-density: the exchange exponents then run to 1e3 .. 1e6 (certain or impossible exchanges)
    sharp = float(10.0 ** rng.uniform(-7, -4)) if (j + k) % 4 == 2 else 1.0
    # another quarter have a log-density with few distinct values (table-top with steps): exact ties between different points
    # (exchange probability exactly one) and log-densities that are exactly 0.0
    tkind = "terrace" if (j + k) % 4 == 3 else "gauss"
    terr = [float(rng.uniform(0.8, 2.0)), float(rng.choice([0.5, 1.0]))]
    mu_ = rng.normal(size=d) * 0.5
    starts_ = rng.normal(size=(n, d)) * 1.5
    if tkind == "terrace":
        # every chain starts on the table-top (log-density exactly 0.0) and the program opens with an exchange round: ties are certain
        starts_ = mu_[None, :] + rng.uniform(-0.6, 0.6, size=(n, d)) * terr[0]
        prog = [("swap", 0)] + prog
    return {"n": n, "d": d, "kinds": kinds, "ladder": ladder, "temps": [float(t) for t in temps], "program": prog, "sharp": sharp,
            "target": tkind, "terrace": terr,
            "mu": mu_.tolist(), "cov": ((A @ A.T / d + 0.6 * np.eye(d)) * sharp).tolist(),
            "starts": starts_.tolist(), "seeds": [int(v) for v in rng.integers(2**31, size=n + 2)],
            "display": bool(rng.random() < 0.3)}


def spec_target(spec, delay=None):
    if spec.get("target") == "terrace":
        return mc.TerraceTarget(spec["mu"], radius=spec["terrace"][0], step=spec["terrace"][1], delay=delay)
    return mc.GaussTarget(spec["mu"], spec["cov"], delay=delay)


def make_schedule(rng, n, s):
    if s == 0:
        return {"name": "unperturbed"}
    name = ["jitter", "slow_worker", "reverse_replies", "stalls_spin", "one_core_nice", "jitter+reverse"][(s - 1) % 6]
    sch = {"name": name, "seed": int(rng.integers(2**31))}
    if "jitter" in name:
        sch["jitter"] = float(rng.uniform(0.0005, 0.003))
    if name == "slow_worker":
        sch["slow"] = int(rng.integers(n))
        sch["base"] = float(rng.uniform(0.003, 0.01))
    if "reverse" in name:
        # lower index replies later: arrival order is the reverse of the index order
        sch["reply"] = [0.02 * (n - 1 - i) + 0.005 for i in range(n)]
    if name == "stalls_spin":
        sch["every"], sch["stall"], sch["spin"] = int(rng.integers(3, 9)), float(rng.uniform(0.005, 0.02)), True
        sch["reply"] = [float(v) for v in rng.uniform(0, 0.03, size=n)]
    if name == "one_core_nice":
        sch["one_core"], sch["nice"] = True, True
        sch["jitter"] = 0.001
    return sch


def build(spec, sch):
    classes = ptmon.delayed_classes()
    chains, targets = [], []
    for i in range(spec["n"]):
        plan = None
        if sch.get("jitter") or sch.get("slow") == i or sch.get("every"):
            plan = mc.SleepPlan(sch.get("seed", 0), i, base=sch.get("base", 0.0) if sch.get("slow") == i else 0.0,
                                jitter=sch.get("jitter", 0.0), every=sch.get("every", 0), stall=sch.get("stall", 0.0), spin=sch.get("spin", False))
        tgt = spec_target(spec, delay=plan)
        T = spec["temps"][i]
        start = np.array(spec["starts"][i], float)
        kind = spec["kinds"][i]
        cls = classes[kind]
        if kind == "hmc":
            ch = cls(posterior=tgt, start=start, grad=tgt.grad, temperature=T, epsilon=0.3, display_progress=spec["display"])
        else:
            ch = cls(posterior=tgt, start=start, widths=np.full(spec["d"], 1.0), temperature=T, display_progress=spec["display"])
        ch.reply_delay = float(sch["reply"][i]) if sch.get("reply") else 0.0
        ch.reply_spin = bool(sch.get("spin", False))
        mc.seed_sampler(ch, spec["seeds"][i])
        chains.append(ch)
        targets.append(tgt)
    return chains, targets


def chain_arrays(ch):
    s, p = mc.full_readout(ch)
    return s, p


# ------------------------------------------------------------------ one execution of a scenario under a schedule
class Outcome:
    def __init__(self):
        self.final = None
        self.counters = None
        self.error = None
        self.signatures = set()
        self.exchange_events = []   # (p_ref, accepted) of proposed pairs in explicit swaps


def execute(spec, sch, rec, monitor, ctx, extra_swaps=0):
    from inference.mcmc import ParallelTempering

    out = Outcome()
    ref_target = spec_target(spec)
    temps = spec["temps"]
    n = spec["n"]
    old_aff = None
    if sch.get("one_core"):
        try:
            old_aff = os.sched_getaffinity(0)
            os.sched_setaffinity(0, {sorted(old_aff)[0]})
        except (AttributeError, OSError):
            old_aff = None
    chains, _ = build(spec, sch)
    sink = io.StringIO()
    with contextlib.redirect_stdout(sink), contextlib.redirect_stderr(sink):
        pt = guarded(ParallelTempering, chains)
    if old_aff is not None:
        os.sched_setaffinity(0, old_aff)   # the workers keep the single core, the parent is released
    if isinstance(pt, Raised):
        out.error = f"ParallelTempering construction raised {pt!r}"
        if monitor:
            rec.violation("raised", out.error, ctx)
        return out
    if sch.get("nice"):
        for i, p in enumerate(pt.processes):
            try:
                os.setpriority(os.PRIO_PROCESS, p.pid, 5 * (i % 3))
            except (AttributeError, OSError):
                pass
    log = []

    def probe(index):
        if index == 0 and n > 1:
            out.signatures.add(tuple(bool(c._c.poll(0)) for c in pt.connections[1:]))

    pt.connections = [ptmon.RecordingConn(c, i, log, ready_probe=probe) for i, c in enumerate(pt.connections)]
    pt.rng = np.random.default_rng(spec["seeds"][n])
    random.seed(spec["seeds"][n + 1])

    def snapshot():
        r = pt.return_chains()
        return r

    def fail(key, msg):
        if monitor:
            rec.violation(key, msg, ctx)
        out.error = out.error or msg

    try:
        with contextlib.redirect_stdout(sink):
            program = list(spec["program"]) + [("swap", 0)] * extra_swaps
            for op, arg in program:
                mark = len(log)
                if op == "take_steps":
                    before = snapshot() if monitor else None
                    pt.take_steps(arg)
                    if monitor:
                        after = snapshot()
                        for i, (a, b) in enumerate(zip(before, after)):
                            if int(b.chain_length) - int(a.chain_length) != arg:
                                fail("wrong-number-of-steps", f"take_steps({arg}): chain {i} grew by {int(b.chain_length) - int(a.chain_length)}")
                elif op == "advance":
                    nn, si = arg
                    before = snapshot()
                    mark = len(log)
                    pt.advance(nn, swap_interval=si)
                    seg = log[mark:]
                    after = snapshot()
                    if monitor:
                        rec.count("advance_calls_checked")
                        rounds = sum(1 for e in seg if e[1] == 0 and e[2] == "send" and isinstance(e[3], dict) and e[3].get("task") == "send_position")
                        rec.count("rounds_decoded", rounds)
                        want_rounds = nn // si
                        rec.check(rounds == want_rounds, "advance-wrong-number-of-swap-rounds",
                                  lambda: f"advance({nn}, swap_interval={si}) performed {rounds} exchange rounds, expected {want_rounds}", ctx)
                        for i, (a, b) in enumerate(zip(before, after)):
                            g = int(b.chain_length) - int(a.chain_length)
                            steps_sent = sum(e[3].get("advance_count", 0) for e in seg if e[1] == i and e[2] == "send" and isinstance(e[3], dict) and e[3].get("task") == "advance")
                            rec.check(g == nn and steps_sent == nn, "advance-wrong-number-of-steps",
                                      lambda: f"advance({nn}, swap_interval={si}): chain {i} grew by {g} (steps ordered over the pipe: {steps_sent})", ctx)
                        check_rounds_consistency(rec, seg, n, ctx)
                elif op == "run_for":
                    secs, si = arg
                    before = snapshot()
                    mark = len(log)
                    pt.run_for(minutes=secs / 60.0, swap_interval=si)
                    seg = log[mark:]
                    after = snapshot()
                    if monitor:
                        rec.count("run_for_calls_checked")
                        rounds = sum(1 for e in seg if e[1] == 0 and e[2] == "send" and isinstance(e[3], dict) and e[3].get("task") == "send_position")
                        growth = [int(b.chain_length) - int(a.chain_length) for a, b in zip(before, after)]
                        rec.count("rounds_decoded", rounds)
                        rec.check(len(set(growth)) == 1 and growth[0] == rounds * si and rounds >= 1, "timed-run-unequal-steps",
                                  lambda: f"run_for(swap_interval={si}): chains grew by {growth} over {rounds} exchange rounds", ctx)
                        check_rounds_consistency(rec, seg, n, ctx)
                elif op == "swap":
                    before = snapshot()
                    att0, suc0 = np.array(pt.attempted_swaps, float), np.array(pt.successful_swaps, float)
                    mark = len(log)
                    pt.swap()
                    seg = log[mark:]
                    after = snapshot()
                    check_swap(rec if monitor else None, out, spec, ref_target, before, after, att0, suc0, pt, seg, ctx)
                else:
                    r = snapshot()
                    if monitor:
                        for i, ch in enumerate(r):
                            check_returned_chain(rec, ch, ref_target, temps[i], ctx, i)
            final = snapshot()
            out.final = [chain_arrays(ch) for ch in final]
            out.counters = (np.array(pt.attempted_swaps, float).copy(), np.array(pt.successful_swaps, float).copy())
            if monitor:
                for i, ch in enumerate(final):
                    check_returned_chain(rec, ch, ref_target, temps[i], ctx, i)
    except ptmon.WorkerSilent as exc:
        dead = [i for i, p in enumerate(pt.processes) if p.exitcode is not None]
        if dead:
            fail("worker-died", f"{exc}; workers {dead} have exited with codes {[pt.processes[i].exitcode for i in dead]}")
        else:
            out.error = str(exc)
            if monitor:
                rec.inconclusive_because(f"{ctx.get('scenario')}: {exc}")
    except Exception as exc:  # noqa: BLE001
        fail("raised", f"tempering program raised {exc!r}")
    finally:
        done = threading.Event()

        def stop():
            try:
                pt.shutdown()
            finally:
                done.set()

        th = threading.Thread(target=stop, daemon=True)
        t0 = time.time()
        th.start()
        done.wait(30)
        alive = [i for i, p in enumerate(pt.processes) if p.is_alive()]
        codes = [p.exitcode for p in pt.processes]
        if monitor:
            rec.count("shutdowns_checked")
            rec.check(not alive and all(c == 0 for c in codes), "workers-do-not-terminate",
                      lambda: f"after shutdown(): workers still alive {alive}, exit codes {codes} (waited {time.time() - t0:.1f} s)", ctx)
        for p in pt.processes:
            if p.is_alive():
                p.terminate()
    return out


def check_returned_chain(rec, ch, target, T, ctx, i):
    s, p = mc.full_readout(ch)
    ok = s.shape[0] == p.shape[0] == int(ch.chain_length)
    rec.check(ok, "returned-chain-incomplete", lambda: f"chain {i}: {s.shape[0]} samples, {p.shape[0]} log-probabilities, chain_length {ch.chain_length}", ctx)
    if ok:
        want = np.array([target(x) for x in s]) / T
        rec.count("returned_rows_rederived", p.size)
        bad = np.nonzero(np.abs(p - want) > 1e-12 * np.maximum(np.abs(want), 1e-300))[0]
        rec.check(bad.size == 0, "probability-not-of-sample",
                  lambda: f"chain {i} (T={T:.3g}): recorded log-probability [{bad[0]}] = {p[bad[0]]!r} but log-density(sample) / T = {want[bad[0]]!r}", ctx)


def check_rounds_consistency(rec, seg, n, ctx):
    """Exchange messages inside advance(): every update must mirror a partner's update with that partner's position."""
    pos, upd = {}, {}

    def flush():
        for i, (pp, _) in upd.items():
            partner = [j for j in pos if j != i and np.array_equal(pos[j][0], pp)]
            mirrored = any(j in upd and np.array_equal(upd[j][0], pos[i][0]) for j in partner)
            rec.check(bool(partner) and mirrored, "exchange-messages-inconsistent",
                      lambda: f"chain {i} was sent a position that is not a mutually exchanged position of another chain", ctx)

    for _, idx, direction, obj in seg:
        if direction == "send" and isinstance(obj, dict) and obj.get("task") == "send_position" and idx == 0:
            flush()
            pos, upd = {}, {}
        elif direction == "recv" and isinstance(obj, tuple) and len(obj) == 2:
            pos[idx] = obj
        elif direction == "send" and isinstance(obj, dict) and obj.get("task") == "update_position":
            upd[idx] = (np.asarray(obj["position"]), obj["probability"])
    flush()


def check_swap(rec, out, spec, target, before, after, att0, suc0, pt, seg, ctx):
    n, temps = spec["n"], spec["temps"]
    att = np.array(pt.attempted_swaps, float) - att0
    suc = np.array(pt.successful_swaps, float) - suc0
    pairs = [(int(i), int(j)) for i, j in zip(*np.nonzero(att))]
    acc = [(int(i), int(j)) for i, j in zip(*np.nonzero(suc))]
    last = [np.asarray(ch.get_last(), float).copy() for ch in before]
    L = [target(x) for x in last]
    exchanged = set()
    for i, j in pairs:
        dlog = (1.0 / temps[i] - 1.0 / temps[j]) * (L[j] - L[i])
        p_ref = 1.0 if dlog >= 0 else float(np.exp(dlog))
        a = (i, j) in acc or (j, i) in acc
        out.exchange_events.append((p_ref, a))
        if a:
            exchanged.update((i, j))
    if rec is None:
        return
    rec.count("explicit_swaps_checked")
    rec.count("rounds_decoded")
    rec.count("exchanges_accepted", len(acc))
    rec.count("exchanges_rejected", len(pairs) - len(acc))
    flat = [k for pr in pairs for k in pr]
    rec.check(len(flat) == len(set(flat)) and all(i != j for i, j in pairs) and bool(np.all(att[att > 0] == 1)), "pairs-not-a-matching",
              lambda: f"proposed pairs {pairs}: a chain takes part in more than one pair", ctx)
    rec.check(set(acc) <= set(pairs), "exchange-without-proposal", lambda: f"accepted {acc} but proposed {pairs}", ctx)
    for i, j in pairs:
        dlog = (1.0 / temps[i] - 1.0 / temps[j]) * (L[j] - L[i])
        a = (i, j) in acc
        if L[i] == L[j] and not np.array_equal(last[i], last[j]):
            rec.count("exchanges_tied")
        if dlog >= 0:
            rec.check(a, "certain-exchange-rejected",
                      lambda: f"pair ({i},{j}) with T = ({temps[i]:.3g}, {temps[j]:.3g}), L = ({L[i]:.4g}, {L[j]:.4g}) has exchange probability 1 but was not exchanged", ctx)
        if dlog < -700:
            rec.check(not a, "impossible-exchange-accepted",
                      lambda: f"pair ({i},{j}) with exchange probability exp({dlog:.1f}) was exchanged", ctx)
    # state after the round
    partner = {}
    for i, j in acc:
        partner[i], partner[j] = j, i
    for i in range(n):
        sb, pb = mc.full_readout(before[i])
        sa, pa = mc.full_readout(after[i])
        same_len = sa.shape == sb.shape and pa.shape == pb.shape
        if not rec.check(same_len, "exchange-changed-length", lambda: f"chain {i}: length changed from {pb.size} to {pa.size} during swap()", ctx):
            continue
        rec.check(np.array_equal(sa[:-1], sb[:-1]) and np.array_equal(pa[:-1], pb[:-1]), "exchange-changed-history",
                  lambda: f"chain {i}: earlier history changed during swap()", ctx)
        if i in partner:
            j = partner[i]
            want_p = L[j] / temps[i]
            rec.check(np.array_equal(sa[-1], last[j]), "exchange-wrong-position",
                      lambda: f"chain {i} exchanged with chain {j}: its current point is {sa[-1]}, chain {j}'s previous point was {last[j]}", ctx)
            rec.check(abs(pa[-1] - want_p) <= 1e-12 * max(abs(want_p), 1e-300), "exchange-not-retempered",
                      lambda: f"chain {i} (T={temps[i]:.3g}) received chain {j}'s point: recorded log-probability {pa[-1]!r}, expected L/T = {want_p!r}", ctx)
        else:
            rec.check(np.array_equal(sa[-1], sb[-1]) and pa[-1] == pb[-1], "bystander-changed",
                      lambda: f"chain {i} took part in no accepted exchange but its current point changed", ctx)
    # what crossed the pipes must be what the snapshots show
    for _, idx, direction, obj in seg:
        if direction == "recv" and isinstance(obj, tuple) and len(obj) == 2:
            rec.check(np.array_equal(np.asarray(obj[0], float), last[idx]) and abs(obj[1] - L[idx] / temps[idx]) <= 1e-12 * max(abs(L[idx] / temps[idx]), 1e-300),
                      "reported-position-wrong", lambda: f"worker {idx} reported a position / probability that is not its chain's current point", ctx)


def same_outcome(a, b):
    if a.final is None or b.final is None or len(a.final) != len(b.final):
        return False, "a run did not complete"
    for i, ((sa, pa), (sb, pb)) in enumerate(zip(a.final, b.final)):
        if sa.shape != sb.shape or not np.array_equal(sa, sb) or not np.array_equal(pa, pb):
            k = -1
            if sa.shape == sb.shape:
                d = np.nonzero(np.any(sa != sb, axis=1))[0]
                k = int(d[0]) if d.size else -1
            return False, f"chain {i} differs (lengths {pa.size} vs {pb.size}, first differing sample {k})"
    if not (np.array_equal(a.counters[0], b.counters[0]) and np.array_equal(a.counters[1], b.counters[1])):
        return False, "attempted / successful swap counters differ"
    return True, ""


def large_ladders(job, rec):
    """Ladders of 10+ chains (where the pairing has several leftover chains to match up): swap rounds on a flat-ish target so that most
    proposed exchanges are accepted; the per-swap monitor checks matching, exchange rule, positions and re-tempering."""
    rng = mk_rng(job["seed"], "C08-large")
    for n in job["sizes"]:
        spec = make_spec(rng, 0, 0)
        d = spec["d"]
        spec.update(n=n, kinds=["gibbs"] * n, ladder="tight", temps=[float(t) for t in np.cumprod([1.0] + list(rng.uniform(1.02, 1.1, size=n - 1)))],
                    starts=(rng.normal(size=(n, d)) * 1.5).tolist(), seeds=[int(v) for v in rng.integers(2**31, size=n + 2)], display=False,
                    program=[("take_steps", 1), ("swap", 0)] * 40 + [("return_chains", 0)])
        ctx = {"scenario": f"large-ladder/{n}", "chains": n, "ladder": "tight"}
        rec.context = ctx
        rec.count("scenarios:large_ladder")
        rec.case(digest("large", n), nontrivial=True)
        execute(spec, {"name": "unperturbed"}, rec, monitor=True, ctx=ctx)


def run_job(job, rec):
    if job.get("mode") == "pairings":
        return pairing_contract(job, rec)
    if job.get("mode") == "large":
        return large_ladders(job, rec)
    rng = mk_rng(job["seed"], "C08", job["j"])
    sig_all = set()
    for k in range(job["n_scen"]):
        spec = make_spec(rng, job["j"], k)
        n = spec["n"]
        sctx = {"scenario": f"{job['name']}/{k}", "chains": n, "kinds": spec["kinds"], "ladder": spec["ladder"],
                "temperatures": [round(t, 3) for t in spec["temps"]], "program": spec["program"], "display": spec["display"]}
        rec.context = sctx
        rec.count("scenarios")
        if spec["target"] == "terrace":
            rec.count("cases:terraced_target")
            sctx["target"] = "terrace"
        if spec["sharp"] != 1.0:
            rec.count("cases:sharp_target")
            sctx["target_scale"] = spec["sharp"]
        if spec["ladder"] == "unsorted":
            rec.count("cases:unsorted_ladder")
        if n % 2 == 1 and n > 1:
            rec.count("cases:odd_chain_count")
        if n == 1:
            rec.count("cases:single_chain")
        if k == 0:
            rec.sample(sctx)
        base = None
        for s in range(job["n_sched"] + 1):
            sch = make_schedule(rng, n, s)
            ctx = {**sctx, "schedule": sch}
            o = execute(spec, sch, rec, monitor=True, ctx=ctx)
            rec.count("schedule_runs")
            rec.case(digest(sctx["scenario"], sch.get("name"), s), nontrivial=n >= 2)
            sig_all |= {(n,) + tuple(x) for x in o.signatures}
            if s == 0:
                base = o
                if o.final is None:
                    break
                continue
            if o.final is None and o.error and base.final is not None:
                # the unperturbed run completed, the perturbed one did not
                if "did not reply" not in (o.error or ""):
                    rec.violation("schedule-dependent-failure", f"schedule '{sch['name']}': {o.error} (the unperturbed run completed)", ctx)
                continue
            ok, why = same_outcome(base, o)
            rec.count("chains_compared_across_schedules", n)
            rec.check(ok, "result-depends-on-schedule",
                      lambda: f"{sctx['scenario']} ({n} chains, {spec['ladder']} ladder): schedule '{sch['name']}' gives a different result from the unperturbed run: {why}", ctx)

        # ---- a timed run (wall-clock budget, so not part of the schedule comparison): equal growth, consistent messages
        if n >= 1 and k == 0:
            tspec = dict(spec)
            tspec["program"] = [("take_steps", 1), ("run_for", (0.25, int(rng.choice([1, 2, 5])))), ("swap", 0)]
            execute(tspec, {"name": "unperturbed"}, rec, monitor=True, ctx={**sctx, "program": tspec["program"], "part": "timed run"})

        # ---- exchange calibration on a long sequence of explicit swaps (two-stage)
        if n >= 2 and k == 0:
            cal_spec = dict(spec)
            cal_spec["program"] = [("take_steps", 2), ("swap", 0)] * job["calib_rounds"]

            def pv(m, stage):
                sp = dict(cal_spec)
                if stage == 1:
                    sp["program"] = cal_spec["program"] * 4
                    sp["seeds"] = [int(v) + 17 for v in cal_spec["seeds"]]
                o = execute(sp, {"name": "unperturbed"}, rec, monitor=False, ctx=sctx)
                ev = [(p, a) for p, a in o.exchange_events if p < 1.0]
                rec.count("calibration_events", len(ev))
                if len(ev) < 30:
                    return 1.0
                p = np.array([e[0] for e in ev])
                a = np.array([1.0 if e[1] else 0.0 for e in ev])
                v = (p * (1 - p)).sum()
                return st.z_to_p((a - p).sum() / np.sqrt(v)) if v > 1 else 1.0

            st.two_stage(rec, "exchange-miscalibrated", pv, job["calib_rounds"],
                         lambda: f"{sctx['scenario']}: accepted exchanges deviate from min(1, exp((1/Ti - 1/Tj)(Lj - Li)))", sctx)
    rec.note("ready_signatures", sorted(str(x) for x in sig_all)[:40])
    rec.count("distinct_ready_signatures", len(sig_all))
