"""Monitoring helpers for the multi-process components (ParallelTempering).

 * RecordingConn  - proxy placed in ParallelTempering.connections: records every message that
                    crosses the parent side of a pipe (monotonic stamp, direction, payload) and
                    turns a silent hang into a diagnosable timeout;
 * delayed chain classes - subclasses of the library's chains (defined here so that they can
                    be pickled across the pipes) whose get_last() is delayed according to a
                    deterministic plan: this perturbs the order in which workers *reply*, without
                    touching any random stream.
"""
import time

import numpy as np


class WorkerSilent(Exception):
    pass


class RecordingConn:
    def __init__(self, conn, index, log, ready_probe=None, recv_timeout=120.0):
        self._c, self.index, self.log = conn, index, log
        self.ready_probe = ready_probe
        self.recv_timeout = recv_timeout

    def send(self, obj):
        self.log.append((time.monotonic_ns(), self.index, "send", obj))
        return self._c.send(obj)

    def recv(self):
        if not self._c.poll(self.recv_timeout):
            raise WorkerSilent(f"worker {self.index} did not reply within {self.recv_timeout} s")
        obj = self._c.recv()
        self.log.append((time.monotonic_ns(), self.index, "recv", obj))
        if self.ready_probe is not None:
            self.ready_probe(self.index)
        return obj

    def poll(self, *a, **k):
        return self._c.poll(*a, **k)

    def fileno(self):
        return self._c.fileno()

    def close(self):
        return self._c.close()

    def __getattr__(self, name):
        return getattr(self._c, name)


def _sleep(d, spin=False):
    if d <= 0:
        return
    if spin:
        t0 = time.perf_counter()
        while time.perf_counter() - t0 < d:
            pass
    else:
        time.sleep(d)


class _DelayedLast:
    """Mixin: get_last() (used by the worker to answer 'send_position') waits according to a plan."""

    reply_delay = 0.0
    reply_spin = False

    def get_last(self):
        _sleep(self.reply_delay, self.reply_spin)
        return super().get_last()


def delayed_classes():
    from inference.mcmc import GibbsChain, PcaChain, HamiltonianChain

    global DelayedGibbs, DelayedPca, DelayedHmc
    if "DelayedGibbs" not in globals():
        DelayedGibbs = type("DelayedGibbs", (_DelayedLast, GibbsChain), {"__module__": __name__})
        DelayedPca = type("DelayedPca", (_DelayedLast, PcaChain), {"__module__": __name__})
        DelayedHmc = type("DelayedHmc", (_DelayedLast, HamiltonianChain), {"__module__": __name__})
    return {"gibbs": DelayedGibbs, "pca": DelayedPca, "hmc": DelayedHmc}


def __getattr__(name):  # lets pickle resolve the dynamically created classes in any process
    if name in ("DelayedGibbs", "DelayedPca", "DelayedHmc"):
        delayed_classes()
        return globals()[name]
    raise AttributeError(name)
