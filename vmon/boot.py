"""Process bootstrap: make `import inference` resolve to the tree under test.

The tree under test is $VERIF_REPO (default /repo).  The package is pure Python,
so "rebuilding from the current working tree" is a fresh import in a fresh
process; every check job runs in its own interpreter.
"""
import os
import sys

VERIF_DIR = os.path.dirname(os.path.dirname(os.path.abspath(__file__)))
GUARD = "INFERENCE_TOOLS_VERIF"


def repo_path() -> str:
    return os.path.realpath(os.environ.get("VERIF_REPO", "/repo"))


def child_env() -> dict:
    env = dict(os.environ)
    env["MPLBACKEND"] = "Agg"
    env[GUARD] = "1"
    env["PYTHONHASHSEED"] = "0"
    env["PYTHONDONTWRITEBYTECODE"] = "1"
    # one BLAS thread per worker: the harness parallelises over processes
    for k in ("OMP_NUM_THREADS", "OPENBLAS_NUM_THREADS", "MKL_NUM_THREADS"):
        env[k] = "1"
    env["PYTHONPATH"] = os.pathsep.join([repo_path(), VERIF_DIR])
    return env


def boot():
    """Called first thing in every worker process."""
    os.environ.setdefault("MPLBACKEND", "Agg")
    os.environ[GUARD] = "1"
    rp = repo_path()
    if VERIF_DIR not in sys.path:
        sys.path.insert(0, VERIF_DIR)
    if not sys.path or os.path.realpath(sys.path[0]) != rp:
        sys.path.insert(0, rp)
    import warnings

    warnings.filterwarnings("ignore")
    import inference

    got = os.path.realpath(inference.__file__)
    if not got.startswith(rp + os.sep):
        raise RuntimeError(f"inference imported from {got}, expected under {rp}")
    return rp
