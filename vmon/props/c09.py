"""C09 - a saved sampler reloads to an equivalent sampler that can continue.

Monitor: state-equivalence at a save point ("crash point") chosen anywhere in a run.
For each sampler configuration a never-saved twin (deep copy) is kept; the original
is saved, reloaded, given the original's generator states, and
 * every public read-out and the tuning state of the copy must equal the original's,
 * calls that work on the original must work on the copy (plots on the Agg backend),
 * the copy must be saveable again,
 * K further steps must be bit-identical on the copy, the saved original and the
   never-saved twin (K is chosen to cross the next adaptation event).
"""
import copy
import os
import tempfile

import numpy as np

from vmon.rec import digest
from vmon.util import mk_rng, guarded, Raised
from vmon import mc

ID = "C09"
RULE = (
    "seeded configurations: Gibbs (with boundaries / non-negativity), Metropolis, PCA, Hamiltonian (scalar / vector / matrix "
    "mass, with and without user gradient) and ensemble (alpha != 2) samplers; 1-4 parameters; temperature 1 or 3; bounds on "
    "and off; display on/off; save after 0, 1, 14-16, 99-101, 149-151, 249-251 or a random number of steps (before, at and "
    "after the first step-size / direction adaptation); continuation of 40-140 steps; non-trivial = save point > 0 or "
    "non-default configuration; distinct = distinct (configuration, save point)"
)
ASSUMPTIONS = ["generator states are copied onto the reloaded object by the harness, as the property allows"]
TIMEOUT = {"quick": 400, "thorough": 2400}
REQUIRED = {"reloads": 90, "continuations_compared": 90, "save_point:0": 8, "save_point:straddles_adaptation": 25,
            "cases:bounded": 25, "cases:tempered": 15, "cases:matrix_mass": 3, "resaves": 80, "plot_calls_compared": 30, "cases:many_parameters": 8}

PARAM_FIELDS = ["samples", "sigma", "avg", "var", "num", "sigma_values", "sigma_checks", "try_count", "last_update", "target_rate",
                "max_tries", "chk_int", "growth_factor", "adjust_rate", "non_negative", "bounded", "upper", "lower", "width"]
ES_FIELDS = ["epsilon", "epsilon_values", "epsilon_checks", "avg", "var", "num", "accept_rate", "chk_int", "growth_factor"]
CHAIN_FIELDS = {
    "gibbs": ["chain_length", "n_parameters", "probs", "inv_temp", "display_progress"],
    "pca": ["chain_length", "n_parameters", "probs", "inv_temp", "display_progress", "dir_update_interval", "dir_growth_factor",
            "last_update", "next_update", "angles_history", "update_history", "directions", "covar"],
    "hmc": ["chain_length", "n_parameters", "probs", "theta", "leapfrog_steps", "steps", "inv_temp", "temperature", "display_progress", "max_attempts"],
    "ensemble": ["chain_length", "n_parameters", "n_walkers", "n_iterations", "walker_positions", "walker_probs", "total_proposals",
                 "failed_updates", "alpha", "max_attempts", "sample", "sample_probs", "display_progress"],
}
CHAIN_FIELDS["metropolis"] = CHAIN_FIELDS["gibbs"]
SAVE_POINTS = [0, 0, 1, 2, 14, 15, 16, 40, 99, 100, 101, 149, 150, 151, 249, 250, 251]


def jobs(tier, seed):
    n_jobs = 16 if tier == "quick" else 32
    return [{"name": f"save-{j}", "seed": seed, "j": j, "n_cases": 12 if tier == "quick" else 70} for j in range(n_jobs)]


def same(a, b):
    if a is None or b is None:
        return a is None and b is None
    try:
        x, y = np.asarray(a, dtype=float), np.asarray(b, dtype=float)
    except (TypeError, ValueError):
        return a == b
    return x.shape == y.shape and bool(np.array_equal(x, y))


def state(obj, kind):
    st = {}
    for f in CHAIN_FIELDS[kind]:
        if hasattr(obj, f):
            st[f] = getattr(obj, f)
        else:
            st[f] = "<missing>"
    for i, p in enumerate(getattr(obj, "params", []) or []):
        for f in PARAM_FIELDS:
            st[f"param{i}.{f}"] = getattr(p, f, "<missing>")
    if kind == "hmc":
        for f in ES_FIELDS:
            st["ES." + f] = getattr(getattr(obj, "ES", None), f, "<missing>")
        st["mass.inv_mass"] = getattr(getattr(obj, "mass", None), "inv_mass", "<missing>")
        st["mass.type"] = type(getattr(obj, "mass", None)).__name__
    b = getattr(obj, "bounds", None)
    st["bounds.lower"] = None if b is None else b.lower
    st["bounds.upper"] = None if b is None else b.upper
    return copy.deepcopy(st)  # a snapshot: the live lists keep growing


def diff_state(a, b):
    out = []
    for k in a:
        va, vb = a[k], b.get(k, "<missing>")
        if isinstance(va, str) or isinstance(vb, str):
            if not (isinstance(va, str) and isinstance(vb, str) and va == vb):
                # an attribute the original does not have either is not a difference
                out.append(k)
            continue
        if not same(va, vb):
            out.append(k)
    return out


def readouts(obj, kind):
    out = {}
    if kind == "ensemble" and getattr(obj, "sample", None) is None:
        return {"chain_length": int(obj.chain_length)}
    out["sample"] = np.asarray(obj.get_sample(burn=0, thin=1), float)
    out["probs"] = np.asarray(obj.get_probabilities(burn=0, thin=1), float)
    out["chain_length"] = int(obj.chain_length)
    out["mode"] = np.atleast_1d(np.asarray(obj.mode(), float))
    L = out["probs"].size
    out["sample_b3t2"] = np.asarray(obj.get_sample(burn=min(3, L), thin=2), float)
    out["param0"] = np.asarray(obj.get_parameter(0, burn=0, thin=1), float)
    if L >= 4:
        iv = obj.get_interval(interval=0.8, burn=0, thin=1)
        out["interval_s"], out["interval_p"] = np.asarray(iv[0], float), np.asarray(iv[1], float)
        if np.unique(out["param0"]).size >= 3:
            out["marginal"] = np.sort(np.asarray(obj.get_marginal(0, burn=0, thin=1).sample, float))
    return out


def step(obj, kind, k):
    if kind == "ensemble":
        obj.advance(k)
    else:
        for _ in range(k):
            obj.take_step()


def run_job(job, rec):
    import matplotlib

    matplotlib.use("Agg")
    import matplotlib.pyplot as plt
    from inference.mcmc import GibbsChain, PcaChain, HamiltonianChain, EnsembleSampler
    from inference.mcmc.gibbs import MetropolisChain

    rng = mk_rng(job["seed"], "C09", job["j"])
    tmpdir = tempfile.mkdtemp(prefix="c09-")
    kinds = ["gibbs", "metropolis", "pca", "hmc", "ensemble"]

    for c in range(job["n_cases"]):
        kind = kinds[(c + job["j"]) % 5]
        d = int(rng.choice([1, 2, 3, 4]))
        if kind in ("gibbs", "metropolis", "pca") and rng.random() < 0.25:
            d = int(rng.choice([10, 11, 12, 23]))   # enough parameters for their file keys to have two digits
            rec.count("cases:many_parameters")
        A = rng.normal(size=(d, d))
        target = mc.GaussTarget(rng.normal(size=d) * 0.3, A @ A.T / d + 0.5 * np.eye(d))
        T = float(rng.choice([1.0, 3.0, rng.uniform(1.05, 9.9), rng.uniform(1.05, 9.9)])) if kind != "ensemble" else 1.0   # (arbitrary values: 1/T is not exact)
        bounded = bool(rng.random() < 0.5)
        display = bool(rng.random() < 0.3)
        start = rng.normal(size=d) * 0.3
        lo, hi = start - rng.uniform(1, 4, size=d), start + rng.uniform(1, 4, size=d)
        cfg = {"kind": kind, "d": d, "T": T, "bounded": bounded, "display_progress": display}
        use_grad = True
        try:
            if kind in ("gibbs", "metropolis"):
                cls = GibbsChain if kind == "gibbs" else MetropolisChain
                ch = cls(posterior=target, start=start, widths=rng.uniform(0.3, 2, size=d), temperature=T, display_progress=display)
                if bounded:
                    for i in range(d):
                        r = rng.random()
                        if r < 0.4:
                            ch.set_boundaries(i, (lo[i], hi[i]))
                        elif r < 0.6 and start[i] > 0:
                            ch.set_non_negative(i, True)
                        elif r < 0.85 and start[i] > 0:
                            # both limits on one parameter (boundaries straddling zero + non-negativity)
                            ch.set_boundaries(i, (min(lo[i], -0.5), hi[i]))
                            ch.set_non_negative(i, True)
                            rec.count("cases:both_limits")
                    cfg["limits"] = [(bool(p.bounded), bool(p.non_negative)) for p in ch.params]
            elif kind == "pca":
                cls = PcaChain
                ch = cls(posterior=target, start=start, widths=rng.uniform(0.3, 2, size=d), temperature=T, display_progress=display,
                         bounds=(lo, hi) if bounded else None)
            elif kind == "hmc":
                cls = HamiltonianChain
                mass_kind = str(rng.choice(["default", "scalar", "vector", "matrix", "matrix"]))
                im = None
                if mass_kind == "scalar":
                    im = float(rng.uniform(0.5, 2))
                elif mass_kind == "vector":
                    im = rng.uniform(0.5, 2, size=d)
                elif mass_kind == "matrix":
                    B = rng.normal(size=(d, d))
                    im = B @ B.T / d + np.eye(d)
                    im = 0.5 * (im + im.T)
                    rec.count("cases:matrix_mass")
                use_grad = bool(rng.random() < 0.75)
                cfg.update(mass=mass_kind, user_gradient=use_grad)
                kw = dict(posterior=target, start=start, grad=target.grad if use_grad else None, temperature=T, display_progress=display,
                          epsilon=float(rng.choice([0.05, 0.2, 0.6])), bounds=(lo, hi) if bounded else None)
                if im is not None:
                    kw["inverse_mass"] = im
                ch = cls(**kw)
            else:
                cls = EnsembleSampler
                nw = max(2 * d + 2, 6)
                pos = lo + (hi - lo) * rng.uniform(0.1, 0.9, size=(nw, d))
                alpha = float(rng.choice([2.0, 1.3, 3.5]))
                cfg["alpha"] = alpha
                ch = cls(posterior=target, starting_positions=pos, alpha=alpha, bounds=(lo, hi) if bounded else None, display_progress=display)
        except Exception as exc:  # noqa: BLE001
            rec.violation("raised", f"{kind}: construction raised {exc!r}", cfg)
            continue
        mc.seed_sampler(ch, int(rng.integers(2**31)))
        n0 = int(rng.choice(SAVE_POINTS)) if rng.random() < 0.8 else int(rng.integers(0, 260))
        if kind == "ensemble":
            n0 = n0 // 8
        if kind == "hmc" and not use_grad:
            n0 = min(n0, 40)
        K = int(rng.choice([40, 60, 140])) if kind != "ensemble" else int(rng.choice([3, 10]))
        if kind == "hmc":
            K = min(K, 60)
        cfg.update(save_after=n0, continue_for=K)
        ctx = dict(cfg)
        rec.context = ctx
        rec.case(digest(sorted((k, str(v)) for k, v in cfg.items())), nontrivial=n0 > 0 or bounded or T != 1)
        if bounded:
            rec.count("cases:bounded")
        if T != 1:
            rec.count("cases:tempered")
        if n0 == 0:
            rec.count("save_point:0")
        if c < 2:
            rec.sample(ctx)
        import io
        import contextlib

        sink = io.StringIO()
        with contextlib.redirect_stdout(sink):
            r = guarded(step, ch, kind, n0)
        if isinstance(r, Raised):
            rec.violation("raised", f"{kind}: advancing {n0} steps raised {r!r}", ctx)
            continue
        # does the continuation cross an adaptation event of the original?
        twin = copy.deepcopy(ch)
        before = guarded(readouts, ch, kind)
        st_before = state(ch, kind)
        path = os.path.join(tmpdir, f"s{c}.npz")
        compressed = bool(kind == "hmc" and rng.random() < 0.4)   # the Hamiltonian chain offers a compressed file
        if compressed:
            rec.count("cases:compressed_file")
        r = guarded(ch.save, path, compressed=True) if compressed else guarded(ch.save, path)
        if isinstance(r, Raised):
            rec.violation("save-raised", f"{kind}: save() after {n0} steps raised {r!r}", ctx)
            continue
        after_save = guarded(readouts, ch, kind)
        rec.check(not diff_state(st_before, state(ch, kind)) and (isinstance(before, Raised) or all(same(before[k], after_save[k]) for k in before)),
                  "save-changed-original", f"{kind}: save() changed the state of the sampler", ctx)
        kwl = {"posterior": target}
        if kind == "hmc" and use_grad:
            kwl["grad"] = target.grad
        cp = guarded(cls.load, path, **kwl)
        rec.count("reloads")
        if isinstance(cp, Raised):
            rec.violation("load-raised", f"{kind}: load() of a file saved after {n0} steps raised {cp!r}", ctx)
            continue

        # ---- read-outs and tuning state
        ro_o = before
        ro_c = guarded(readouts, cp, kind)
        if isinstance(ro_c, Raised) and not isinstance(ro_o, Raised):
            rec.violation("readout-fails-on-copy", f"{kind}: a read-out that works on the original raised on the reloaded copy: {ro_c!r}", ctx)
            continue
        if not isinstance(ro_o, Raised) and not isinstance(ro_c, Raised):
            bad = [k for k in ro_o if k not in ro_c or not same(ro_o[k], ro_c[k])]
            if "interval_s" in bad or "interval_p" in bad:
                # get_interval without a count is deterministic; rows are sorted by probability, ties aside
                pass
            rec.check(not bad, "readouts-differ", lambda: f"{kind}: read-outs differ after reload (saved after {n0} steps): {bad}", ctx)
        sd = diff_state(st_before, state(cp, kind))
        rec.check(not sd, "tuning-state-differs", lambda: f"{kind}: state differs after reload (saved after {n0} steps): {sd[:8]}", ctx)

        # ---- calls that work on the original work on the copy
        if kind != "ensemble" and c % 2 == 0:
            for call in ("trace_plot", "matrix_plot", "plot_diagnostics"):
                def do(obj, call=call):
                    with contextlib.redirect_stdout(sink):
                        if call == "plot_diagnostics":
                            obj.plot_diagnostics(show=False)
                        else:
                            getattr(obj, call)(show=False)
                    plt.close("all")

                ro = guarded(do, twin)
                rc = guarded(do, cp)
                plt.close("all")
                if not isinstance(ro, Raised):
                    rec.count("plot_calls_compared")
                    rec.check(not isinstance(rc, Raised), "call-fails-on-copy",
                              lambda: f"{kind}: {call}() works on the original but raised on the reloaded copy: {rc!r}", ctx)

        # ---- the copy can be saved again, to an equivalent file
        path2 = os.path.join(tmpdir, f"t{c}.npz")
        r = guarded(cp.save, path2)
        rec.count("resaves")
        if isinstance(r, Raised):
            rec.violation("resave-raised", f"{kind}: the reloaded copy cannot be saved again: {r!r}", ctx)
        else:
            cp2 = guarded(cls.load, path2, **kwl)
            if isinstance(cp2, Raised):
                rec.violation("load-raised", f"{kind}: load() of a re-saved copy raised {cp2!r}", ctx)
            else:
                sd2 = diff_state(st_before, state(cp2, kind))
                rec.check(not sd2, "tuning-state-differs", lambda: f"{kind}: state differs after save-load-save-load: {sd2[:8]}", ctx)

        # ---- continuation: copy == saved original == never-saved twin
        mc.set_rng_states(cp, mc.rng_states(ch))
        with contextlib.redirect_stdout(sink):
            r1, r2, r3 = guarded(step, ch, kind, K), guarded(step, cp, kind, K), guarded(step, twin, kind, K)
        if isinstance(r1, Raised) or isinstance(r3, Raised):
            rec.violation("raised", f"{kind}: continuing the original raised {r1!r} / {r3!r}", ctx)
            continue
        if isinstance(r2, Raised):
            rec.violation("continue-raised", f"{kind}: the reloaded copy (saved after {n0} steps) cannot be advanced: {r2!r}", ctx)
            continue
        rec.count("continuations_compared")
        so, po = mc.full_readout(ch)
        sc, pc = mc.full_readout(cp)
        st_, pt_ = mc.full_readout(twin)
        rec.check(np.array_equal(so, st_) and np.array_equal(po, pt_), "save-changed-original",
                  f"{kind}: the saved original continues differently from its never-saved twin", ctx)
        okc = sc.shape == so.shape and np.array_equal(sc, so) and np.array_equal(pc, po)
        if not okc and sc.shape == so.shape:
            first = int(np.nonzero(np.any(sc != so, axis=1))[0][0]) if np.any(sc != so) else -1
        else:
            first = -1
        rec.check(okc, "continuation-differs",
                  lambda: f"{kind}: continuation of the reloaded copy (saved after {n0} steps) diverges from the original at sample {first} of {so.shape[0]}", ctx)
        sd3 = diff_state(state(ch, kind), state(cp, kind))
        rec.check(not sd3, "tuning-state-differs", lambda: f"{kind}: tuning state differs after {K} continued steps: {sd3[:8]}", ctx)
        # did the continuation straddle an adaptation event?
        straddle = False
        if kind in ("gibbs", "metropolis", "pca"):
            straddle = any(len(p.sigma_values) > len(q.sigma_values) for p, q in zip(ch.params, twin.params)) or \
                any(len(p.sigma_values) != len(st_before[f"param{i}.sigma_values"]) for i, p in enumerate(ch.params))
            if kind == "pca":
                straddle = straddle or len(ch.update_history) != len(st_before["update_history"])
        elif kind == "hmc":
            straddle = len(ch.ES.epsilon_values) != len(st_before["ES.epsilon_values"])
        if straddle:
            rec.count("save_point:straddles_adaptation")

    try:
        for f in os.listdir(tmpdir):
            os.remove(os.path.join(tmpdir, f))
        os.rmdir(tmpdir)
    except OSError:
        pass
