"""Decision ledger: rebuild every accept/reject decision of a real sampler run from
what is observable at the API boundary, and judge it against the Metropolis-Hastings
probability of the move that was proposed.

Observables: the trace of the user's posterior (points + values), the stored chain
after each step (the harness takes one step at a time), and - for block attribution in
Gibbs / PCA - the sequence of Parameter.submit_accept_prob owners (class-level wrapper).
For Hamiltonian chains a class-level recorder on the leapfrog routines provides the
(position, momentum) pairs before and after each trajectory.

All reference quantities (log-density of the current point, temperature, inverse mass)
are the *harness's*: nothing is read back from the sampler's own bookkeeping.
"""
import numpy as np


class Ledger:
    def __init__(self):
        self.p = []        # reference acceptance probability of downhill events
        self.a = []        # 1 accepted / 0 rejected
        self.uphill = 0
        self.uphill_rejected = []
        self.undecodable = 0
        self.events = 0
        self.attempts = []  # per stored state: attempts spent leaving it (single-block samplers)

    def add(self, p_ref, accepted, info=None):
        self.events += 1
        if p_ref >= 1.0:
            self.uphill += 1
            if not accepted and len(self.uphill_rejected) < 5:
                self.uphill_rejected.append(info)
            elif not accepted:
                self.uphill_rejected.append(None)
        else:
            self.p.append(p_ref)
            self.a.append(1.0 if accepted else 0.0)

    def calibration(self, n_strata=6):
        """Martingale z-scores of (accepted - p): overall and in strata of p."""
        p, a = np.asarray(self.p), np.asarray(self.a)
        out = {"n_downhill": int(p.size), "n_uphill": int(self.uphill)}
        if p.size == 0:
            return out, []
        v = p * (1 - p)
        zs = []
        if v.sum() > 0:
            zs.append(("all", float((a - p).sum() / np.sqrt(v.sum())), int(p.size)))
        edges = np.array([0.0, 0.02, 0.1, 0.3, 0.6, 0.9, 1.0])
        for lo, hi in zip(edges[:-1], edges[1:]):
            m = (p >= lo) & (p < hi)
            if m.sum() >= 200 and v[m].sum() > 5:
                zs.append((f"p in [{lo},{hi})", float((a[m] - p[m]).sum() / np.sqrt(v[m].sum())), int(m.sum())))
        out["acceptance_rate"] = float(a.mean())
        out["mean_reference_probability"] = float(p.mean())
        return out, zs


def mh_prob(dlog):
    return 1.0 if dlog >= 0 else float(np.exp(dlog))


# ------------------------------------------------------------------ single-block samplers (Metropolis, Gibbs/PCA in 1-D)
def decode_single_block(ledger, current, L_current_over_T, points, values, T):
    """All evaluations of the step but the last were rejected proposals from `current`."""
    n = len(values)
    if n == 0:
        ledger.undecodable += 1
        return
    for k in range(n):
        d = values[k] / T - L_current_over_T
        ledger.add(mh_prob(d), k == n - 1, {"current": current, "proposal": points[k], "dlog": d})
    ledger.attempts.append(n)


# ------------------------------------------------------------------ Gibbs / PCA via block owners
def decode_blocks(ledger, current, L_current_over_T, points, values, owners, T, check_single_coordinate=False):
    """owners[k] = index of the parameter (block) that owned evaluation k.  Within a step each block's last evaluation
    was accepted; the running current point then becomes that proposal."""
    n = len(values)
    if n == 0 or len(owners) != n:
        ledger.undecodable += max(n, 1)
        return None
    cur = np.array(current, float)
    Lc = L_current_over_T
    per_block_attempts = {}
    for k in range(n):
        last_of_block = (k == n - 1) or (owners[k + 1] != owners[k])
        y = points[k]
        if check_single_coordinate:
            diff = np.nonzero(y != cur)[0]
            if diff.size > 1 or (diff.size == 1 and diff[0] != owners[k]):
                ledger.undecodable += 1
                if last_of_block:
                    cur, Lc = np.array(y, float), values[k] / T
                continue
        d = values[k] / T - Lc
        ledger.add(mh_prob(d), last_of_block, {"current": cur.copy(), "proposal": y, "dlog": d, "block": owners[k]})
        per_block_attempts[owners[k]] = per_block_attempts.get(owners[k], 0) + 1
        if last_of_block:
            cur, Lc = np.array(y, float), values[k] / T
    return cur, per_block_attempts


# ------------------------------------------------------------------ Hamiltonian
def decode_hmc(ledger, attempts, values, T, inv_mass_matrix, target):
    """attempts: list of (t0, r0, t1, r1) per trajectory of the step; values: posterior values at the t1's."""
    n = len(attempts)
    if n == 0 or len(values) != n:
        ledger.undecodable += max(n, 1)
        return
    for k, (t0, r0, t1, r1) in enumerate(attempts):
        K0 = 0.5 * r0 @ inv_mass_matrix @ r0
        K1 = 0.5 * r1 @ inv_mass_matrix @ r1
        d = (K0 - K1) + (values[k] - target(t0)) / T
        ledger.add(mh_prob(d), k == n - 1, {"t0": t0, "t1": t1, "dlog": d})
    ledger.attempts.append(n)


# ------------------------------------------------------------------ ensemble (stretch move)
def decode_ensemble_iteration(ledger, X_before, L_before, X_after, points, values, alpha, max_attempts, zs, partner_offsets, bounded=False):
    """Walk the evaluations of one iteration in order. Returns False if the trace cannot be aligned."""
    n_w, d = X_before.shape
    X = X_before.copy()
    L = np.array(L_before, float).copy()
    k = 0
    n = len(values)
    for i in range(n_w):
        used = 0
        moved = not np.array_equal(X_after[i], X_before[i])
        done = False
        while not done:
            if used >= max_attempts:
                done = True
                break
            if k >= n:
                return False
            Y, LY = points[k], values[k]
            k += 1
            used += 1
            accepted = moved and np.array_equal(Y, X_after[i])
            # recover the partner and the stretch factor: Y = X_j + z (X_i - X_j)
            z_found, j_found = None, None
            for j in range(n_w):
                if j == i:
                    continue
                base = X[i] - X[j]
                c = int(np.argmax(np.abs(base)))
                if base[c] == 0:
                    continue
                z = (Y[c] - X[j][c]) / base[c]
                if np.allclose(X[j] + z * base, Y, rtol=1e-9, atol=1e-12 * np.abs(base).max()):
                    z_found, j_found = float(z), j
                    break
            if z_found is None:
                if not bounded:
                    ledger.undecodable += 1
                    ledger.stretch_failures = getattr(ledger, "stretch_failures", 0) + 1
                # a reflected proposal hides the stretch factor: the event is not judged
            else:
                zs.append(z_found)
                partner_offsets.append((j_found - i) % n_w)
                dlog = (d - 1) * np.log(z_found) + LY - L[i] if z_found > 0 else -np.inf
                ledger.add(mh_prob(dlog) if z_found > 0 else 0.0, accepted, {"walker": i, "z": z_found, "dlog": float(dlog)})
            if accepted:
                X[i], L[i] = Y, LY
                done = True
        if moved and not np.array_equal(X[i], X_after[i]):
            return False
    return k == n
