"""C11 - GP model-selection scores and their gradients are what they claim to be.

Monitors: post-conditions on marginal_likelihood(_gradient), loo_likelihood(_gradient),
loo_predictions and on .hyperpars after automatic selection.
Oracles: MVN log-density with the reference covariance; n explicit refits with one
point removed (reference kernels, plain solves); Richardson gradients of the plain
variants; box membership and "not worse than the box centre" for selections.
"""
import numpy as np

from vmon.rec import digest
from vmon.util import mk_rng, guarded, Raised, num_grad
from vmon.ref import gp as R
from vmon import gpgen as G
from vmon.props.c02 import make_problem, build_regressor
from vmon.props.c10 import cp_positions

ID = "C11"
RULE = (
    "seeded (data, noise, kernel spec, mean incl. the two user-written ones, theta) as for C02 with n = 3-25: scores evaluated at theta vectors different from "
    "the one the regressor was built with; automatic selections on small data sets for both optimisers x both criteria; "
    "judged when cond(K+S) <= 1e9; non-trivial = n >= 4 and (composite kernel or non-constant mean or d >= 2); "
    "distinct = distinct (spec, data, theta)"
)
ASSUMPTIONS = [
    "leave-one-out reference = n explicit solves with row/column i of the full data covariance removed",
    "selection post-condition for the default optimiser relies on L-BFGS-B being a descent method started (among others) from the box centre",
]
TIMEOUT = {"quick": 400, "thorough": 2400}
REQUIRED = {"post:marginal_likelihood": 100, "post:loo_likelihood": 100, "post:loo_predictions": 100,
            "loo_refits": 500, "selections": 16, "gradient_components_checked": 300, "integer_theta_cases": 20, "large_n_cases": 16, "selections:user_bounds": 16, "selections:change_point_limits:3plus_kernels": 2}


def jobs(tier, seed):
    n_jobs = 16 if tier == "quick" else 32
    return [{"name": f"score-{j}", "seed": seed, "j": j, "n_cases": 40 if tier == "quick" else 300,
             "n_select": 2 if tier == "quick" else 10, "n_user_bounds": 2 if tier == "quick" else 7, "n_centre": 16 if tier == "quick" else 60} for j in range(n_jobs)]


def loo_reference(Kfull, y, m):
    n = len(y)
    mu = np.zeros(n)
    var = np.zeros(n)
    for i in range(n):
        keep = np.arange(n) != i
        Kr = Kfull[np.ix_(keep, keep)]
        k = Kfull[keep, i]
        sol = np.linalg.solve(Kr, np.column_stack([y[keep] - m[keep], k]))
        mu[i] = m[i] + k @ sol[:, 0]
        var[i] = Kfull[i, i] - k @ sol[:, 1]
    return mu, var


def run_job(job, rec):
    from inference.gp import GpRegressor, SquaredExponential, RationalQuadratic, WhiteNoise
    from inference.gp import ConstantMean, LinearMean, QuadraticMean
    from vmon.contracts import attach

    rng = mk_rng(job["seed"], "C11", job["j"])
    eps = np.finfo(float).eps
    atts = {m: attach(GpRegressor, m) for m in
            ("marginal_likelihood", "marginal_likelihood_gradient", "loo_likelihood", "loo_likelihood_gradient", "loo_predictions")}

    for c in range(job["n_cases"]):
        p = make_problem(rng)
        if p["n"] < 3 or p["n"] > 25:
            p_n = int(rng.choice([3, 4, 6, 9, 14, 20, 25]))
            # regenerate with a size in range, keeping everything else random
            while True:
                p = make_problem(rng)
                if 3 <= p["n"] <= 25:
                    break
        n, d = p["n"], p["d"]
        desc = G.describe(p["spec"])
        rec.context = {"case": c, "spec": desc, "mean": p["mean"], "n": n, "d": d, "noise": p["noise"]}
        built = guarded(build_regressor, p, rng, "array")
        nontrivial = n >= 4 and (p["spec"][0] in ("SUM", "CP") or p["mean"] != "Constant" or d >= 2)
        rec.case(digest(desc, p["x"], p["y"], p["theta_c"], p["theta_m"], p["S"]), nontrivial=nontrivial)
        if c < 2:
            rec.sample({**rec.context, "theta_cov": p["theta_c"], "theta_mean": p["theta_m"]})

        # scores are evaluated at a theta that differs from the one the model was built with
        tc = p["theta_c"] + rng.normal(size=p["theta_c"].size) * 0.2 * (rng.random() < 0.7)
        for pos, width in cp_positions(p["spec"], n, d, p["x"]):
            tc[pos] = p["theta_c"][pos]
            tc[pos + 1] = abs(p["theta_c"][pos + 1])
        tm = p["theta_m"] * (1 + 0.1 * rng.normal(size=p["theta_m"].size))
        theta = np.concatenate([tm, tc])
        x, y, S = p["x"], p["y"], p["S"]
        Kfull0 = R.data_cov(p["spec"], x, tc) + S
        cond = np.linalg.cond(Kfull0)
        if not np.isfinite(cond) or cond > 1e9 or np.linalg.cond(R.data_cov(p["spec"], x, p["theta_c"]) + S) > 1e9:
            rec.count("skipped_ill_conditioned")
            continue
        if isinstance(built, Raised):
            rec.violation("raised", f"GpRegressor construction raised {built!r}", rec.context)
            continue
        gp = built[0]
        jit = np.clip(np.diag(gp.cov.build_covariance(tc)) - np.diag(R.data_cov(p["spec"], x, tc)), 0, None)
        kd = np.diag(R.kernel(p["spec"], x, x, tc, n))
        if not rec.check(bool(np.all(jit <= 1e-9 * kd + 1e-11 * kd.max())), "builder-diagonal", "jitter out of documented range", rec.context):
            continue
        Kfull = Kfull0 + np.diag(jit)
        m = R.mean(p["mean"], x, tm, x)
        fac = 500 * eps * max(cond, 1.0)

        # ---- marginal likelihood
        ref = R.mvn_logpdf_no_const(y, m, Kfull)
        r = y - m
        quad_scale = abs(r @ np.linalg.solve(Kfull, r)) + abs(np.linalg.slogdet(Kfull)[1]) + n
        v = guarded(gp.marginal_likelihood, theta)
        if isinstance(v, Raised):
            rec.violation("raised", f"marginal_likelihood raised {v!r}", rec.context)
            continue
        rec.check(abs(float(v) - ref) <= fac * quad_scale, "marginal-likelihood-value",
                  lambda: f"{desc}: marginal likelihood {float(v)!r} != MVN log-density {ref!r} (cond {cond:.1e})", rec.context)
        vg = guarded(gp.marginal_likelihood_gradient, theta)
        if isinstance(vg, Raised):
            rec.violation("raised", f"marginal_likelihood_gradient raised {vg!r}", rec.context)
            continue
        rec.check(abs(float(vg[0]) - float(v)) <= fac * quad_scale, "marginal-gradient-variant-value",
                  lambda: f"value from marginal_likelihood_gradient {float(vg[0])!r} != marginal_likelihood {float(v)!r}", rec.context)
        h = np.full(theta.size, 1e-3)
        h[: tm.size] = 1e-3 * np.maximum(np.abs(tm), 1e-3 * p["y_scale"])
        for pos, width in cp_positions(p["spec"], n, d, x):
            h[tm.size + pos] = 1e-4 * width
            h[tm.size + pos + 1] = 1e-4 * width
        gn = num_grad(lambda t: float(gp.marginal_likelihood(t)), theta, h)
        g = np.asarray(vg[1], float)
        gtol = 2e-6 * max(np.abs(gn).max(), np.abs(g).max() if g.shape == gn.shape else 0) + 20 * fac * quad_scale / h
        rec.count("gradient_components_checked", theta.size)
        rec.check(g.shape == gn.shape and bool(np.all(np.abs(g - gn) <= gtol)), "marginal-likelihood-gradient",
                  lambda: f"{desc}/{p['mean']}: LML gradient {g} != numerical {gn}", rec.context)

        # ---- leave-one-out score
        mu_l, var_l = loo_reference(Kfull, y, m)
        rec.count("loo_refits", n)
        if np.any(var_l <= 0):
            rec.count("skipped_nonpositive_loo_variance")
            continue
        terms = (y - mu_l) ** 2 / var_l + np.log(var_l)
        ref_loo = -0.5 * terms.sum()
        lscale = np.abs(terms).sum() + n
        lv = guarded(gp.loo_likelihood, theta)
        if isinstance(lv, Raised):
            rec.violation("raised", f"loo_likelihood raised {lv!r}", rec.context)
            continue
        rec.check(abs(float(lv) - ref_loo) <= fac * lscale * (1 + (np.abs(y - mu_l) / np.sqrt(var_l)).max()), "loo-likelihood-value",
                  lambda: f"{desc}: LOO score {float(lv)!r} != explicit leave-one-out refits {ref_loo!r} (cond {cond:.1e})", rec.context)
        lg = guarded(gp.loo_likelihood_gradient, theta)
        if isinstance(lg, Raised):
            rec.violation("raised", f"loo_likelihood_gradient raised {lg!r}", rec.context)
            continue
        rec.check(abs(float(lg[0]) - float(lv)) <= fac * lscale * 10, "loo-gradient-variant-value",
                  lambda: f"value from loo_likelihood_gradient {float(lg[0])!r} != loo_likelihood {float(lv)!r}", rec.context)
        gn = num_grad(lambda t: float(gp.loo_likelihood(t)), theta, h)
        g = np.asarray(lg[1], float)
        gtol = 2e-6 * max(np.abs(gn).max(), np.abs(g).max() if g.shape == gn.shape else 0) + 100 * fac * lscale / h
        rec.count("gradient_components_checked", theta.size)
        rec.check(g.shape == gn.shape and bool(np.all(np.abs(g - gn) <= gtol)), "loo-likelihood-gradient",
                  lambda: f"{desc}/{p['mean']}: LOO gradient {g} != numerical {gn}", rec.context)

        # ---- history: the same theta array modified in place between score evaluations
        if c % 2 == 0:
            th2 = theta.copy()
            guarded(gp.marginal_likelihood, th2)
            guarded(gp.loo_likelihood, th2)
            th2[tm.size] -= 0.2          # first in-place update (forces any cache to rebuild on this array)
            guarded(gp.marginal_likelihood, th2)
            guarded(gp.loo_likelihood, th2)
            guarded(gp.marginal_likelihood_gradient, th2)
            th2[tm.size] += 0.5          # second in-place update of the same array object: judged
            th2[0] += 0.1 * p["y_scale"]
            K2 = R.data_cov(p["spec"], x, th2[tm.size:]) + S + np.diag(jit)
            cond2 = np.linalg.cond(K2)
            if cond2 < 1e9:
                fac2 = 500 * eps * max(cond2, 1.0)     # the conditioning of the covariance at the *new* values decides the rounding
                m2 = R.mean(p["mean"], x, th2[: tm.size], x)
                ref2 = R.mvn_logpdf_no_const(y, m2, K2)
                v2 = guarded(gp.marginal_likelihood, th2)
                vg2 = guarded(gp.marginal_likelihood_gradient, th2)
                rec.count("in_place_theta_updates")
                sc2 = abs((y - m2) @ np.linalg.solve(K2, y - m2)) + abs(np.linalg.slogdet(K2)[1]) + n
                ok2 = (not isinstance(v2, Raised)) and (not isinstance(vg2, Raised)) and abs(float(v2) - ref2) <= (fac2 + 1e-9) * sc2 and abs(float(vg2[0]) - ref2) <= (fac2 + 1e-9) * sc2
                rec.check(ok2, "stale-after-in-place-update",
                          lambda: f"{desc}: marginal likelihood after an in-place change of the theta array is {v2!r} / {vg2[0] if not isinstance(vg2, Raised) else vg2!r}, the MVN log-density at the new values is {ref2!r}", rec.context)

        # ---- dtype of the hyper-parameter vector: an integer array / a list of ints is a legitimate point
        if c % 3 == 0 and not cp_positions(p["spec"], n, d, x) and not R.has_hn(p["spec"]):
            ti = np.round(theta).astype(int)
            if p["mean"] in ("UserDecay", "UserBump"):
                ti[1] = max(int(ti[1]), 1)        # (the user-written means need a positive rate / width)
            tf = ti.astype(float)
            if np.linalg.cond(R.data_cov(p["spec"], x, tf[tm.size:]) + S) < 1e9:
                rec.count("integer_theta_cases")
                for fn in (gp.marginal_likelihood_gradient, gp.loo_likelihood_gradient):
                    ra, rb, rc = guarded(fn, ti), guarded(fn, tf), guarded(fn, [int(v) for v in ti])
                    okd = not any(isinstance(v, Raised) for v in (ra, rb, rc)) and np.allclose(ra[1], rb[1], rtol=1e-12, atol=0) and np.allclose(rc[1], rb[1], rtol=1e-12, atol=0) \
                        and float(ra[0]) == float(rb[0])
                    rec.check(okd, "depends-on-dtype-of-theta",
                              lambda: f"{fn.__name__}: integer-typed hyper-parameters {ti.tolist()} give {ra!r}, the same values as floats give {rb!r}", rec.context)
                for fn in (gp.marginal_likelihood, gp.loo_likelihood):
                    ra, rb = guarded(fn, ti), guarded(fn, tf)
                    rec.check(not isinstance(ra, Raised) and not isinstance(rb, Raised) and float(ra) == float(rb), "depends-on-dtype-of-theta",
                              lambda: f"{fn.__name__}: integer-typed hyper-parameters give {ra!r}, floats give {rb!r}", rec.context)

        # ---- leave-one-out predictions (at the hyper-parameters the model holds)
        r2 = guarded(gp.set_hyperparameters, theta)
        lp = guarded(gp.loo_predictions)
        if isinstance(r2, Raised) or isinstance(lp, Raised):
            rec.violation("raised", f"set_hyperparameters / loo_predictions raised {r2!r} / {lp!r}", rec.context)
            continue
        mu_p, sg_p = np.asarray(lp[0], float), np.asarray(lp[1], float)
        okp = mu_p.shape == (n,) and sg_p.shape == (n,)
        if rec.check(okp, "loo-prediction-shape", f"loo_predictions shapes {mu_p.shape}, {sg_p.shape}", rec.context):
            tol_mu = fac * (np.abs(y).max() + np.abs(m).max() + np.abs(mu_l).max()) * 10
            rec.check(bool(np.all(np.abs(mu_p - mu_l) <= tol_mu)), "loo-prediction-mean",
                      lambda: f"{desc}: LOO predicted means differ from explicit refits by {np.abs(mu_p - mu_l).max():.3e} (tol {tol_mu:.2e})", rec.context)
            rec.check(bool(np.all(np.abs(sg_p**2 - var_l) <= fac * np.diag(Kfull).max() * 10)), "loo-prediction-variance",
                      lambda: f"{desc}: LOO predictive variances differ from explicit refits by {np.abs(sg_p**2 - var_l).max():.3e}", rec.context)

    # ------------------------------------------------ larger data sets and large magnitudes (value only)
    for c in range(2 if job["n_cases"] < 100 else 6):
        n = int(rng.choice([150, 260, 400]))
        d = int(rng.choice([1, 2]))
        x = G.random_points(rng, n, d)
        ysc = 10.0 ** rng.uniform(-3, 5)
        span = np.where(np.ptp(x, axis=0) > 0, np.ptp(x, axis=0), 1.0)
        y = ysc * (np.sin(3 * (x - x.mean(0)) @ (rng.normal(size=d) / span)) + 0.1 * rng.normal(size=n))
        err = ysc * 10.0 ** rng.uniform(-2.0, -1.0, size=n)
        spec = (str(rng.choice(["SE", "RQ"])),)
        tc = G.random_theta(spec, rng, x, ysc)
        tmn = np.array([rng.normal() * ysc])
        lctx = {"large_n": n, "d": d, "y_scale": ysc, "spec": spec[0]}
        rec.context = lctx
        Kf = R.data_cov(spec, x, tc) + np.diag(err**2) + np.eye(n) * np.exp(2 * tc[0]) * 1e-12
        cond = np.linalg.cond(Kf)
        if cond > 1e9:
            rec.count("skipped_ill_conditioned")
            continue
        gp = guarded(GpRegressor, x, y, y_err=err, hyperpars=np.concatenate([tmn, tc]), kernel=G.build_repo_kernel(spec))
        if isinstance(gp, Raised):
            rec.violation("raised", f"GpRegressor construction raised {gp!r}", lctx)
            continue
        th = np.concatenate([tmn * 1.1, tc + 0.1])
        Kf2 = R.data_cov(spec, x, th[1:]) + np.diag(err**2) + np.eye(n) * np.exp(2 * th[1]) * 1e-12
        c2 = np.linalg.cond(Kf2)
        if c2 > 1e9:
            rec.count("skipped_ill_conditioned")
            continue
        ref = R.mvn_logpdf_no_const(y, np.full(n, th[0]), Kf2)
        r0 = y - th[0]
        sc = abs(r0 @ np.linalg.solve(Kf2, r0)) + abs(np.linalg.slogdet(Kf2)[1]) + n
        v, vg = guarded(gp.marginal_likelihood, th), guarded(gp.marginal_likelihood_gradient, th)
        rec.count("large_n_cases")
        rec.case(digest("large", x, y, th), nontrivial=True)
        okl = not isinstance(v, Raised) and not isinstance(vg, Raised) and np.isfinite(float(v)) and abs(float(v) - ref) <= 500 * np.finfo(float).eps * c2 * sc \
            and abs(float(vg[0]) - ref) <= 500 * np.finfo(float).eps * c2 * sc
        rec.check(okl, "marginal-likelihood-value",
                  lambda: f"n={n}, data scale {ysc:.3g}: marginal likelihood {v!r} (gradient variant {vg[0] if not isinstance(vg, Raised) else vg!r}) != MVN log-density {ref!r}", lctx)

    # ------------------------------------------------ automatic selection
    kernels = {"SE": SquaredExponential, "RQ": RationalQuadratic, "SE+WN": lambda: SquaredExponential() + WhiteNoise()}
    means = {"Constant": ConstantMean, "Linear": LinearMean, "Quadratic": QuadraticMean}
    for s in range(job["n_select"]):
        combos = [("bfgs", False), ("bfgs", True), ("diffev", False), ("diffev", True)]
        opt, cv = combos[(s + job["j"]) % 4]
        d = int(rng.choice([1, 2]))
        n = int(rng.integers(5, 13))
        x = rng.uniform(-1, 1, size=(n, d)) * 10.0 ** rng.uniform(-1, 1)
        ysc = 10.0 ** rng.uniform(-1, 1)
        y = ysc * (np.sin(2.5 * x.sum(axis=1) / np.abs(x).max()) + 0.2 * rng.normal(size=n))
        err = np.full(n, 0.08 * ysc)
        kname = str(rng.choice(list(kernels)))
        mname = str(rng.choice(list(means))) if opt == "bfgs" else "Constant"
        sctx = {"selection": True, "optimizer": opt, "cross_val": cv, "kernel": kname, "mean": mname, "n": n, "d": d}
        rec.context = sctx
        np.random.seed(int(rng.integers(2**31)))
        extra = {}
        if opt == "bfgs" and rng.random() < 0.35:
            # the multi-start optimiser spread over worker processes, with a chosen number of starts
            extra = {"n_processes": 2, "n_starts": int(rng.choice([2, 5, 12]))}
            rec.count("selections:multi_process")
        sctx.update(extra)
        gp = guarded(GpRegressor, x, y, y_err=err, kernel=kernels[kname](), mean=means[mname](), optimizer=opt, cross_val=cv, **extra)
        rec.count("selections")
        rec.case(digest("select", x, y, opt, cv, kname, mname))
        if isinstance(gp, Raised):
            rec.violation("raised", f"automatic hyper-parameter selection raised {gp!r}", sctx)
            continue
        hp = np.asarray(gp.hyperpars, float)
        lo = np.array([b[0] for b in gp.hp_bounds], float)
        hi = np.array([b[1] for b in gp.hp_bounds], float)
        w = hi - lo
        rec.check(hp.shape == lo.shape and bool(np.all(hp >= lo - 1e-9 * w) and np.all(hp <= hi + 1e-9 * w)), "selected-outside-bounds",
                  lambda: f"selected hyper-parameters {hp} outside the advertised bounds {list(zip(lo, hi))}", sctx)
        if opt == "bfgs":
            score = gp.loo_likelihood if cv else gp.marginal_likelihood
            s_sel, s_mid = float(score(hp)), float(score(0.5 * (lo + hi)))
            rec.check(s_sel >= s_mid - 1e-9 * max(abs(s_mid), 1.0), "selected-worse-than-centre",
                      lambda: f"selected hyper-parameters score {s_sel!r}, the centre of the bounds box scores {s_mid!r}", sctx)

    # ------------------------------------------------ the default multi-start optimiser never does worse than the centre of the box:
    #   (a) smooth data given without errors (badly conditioned near the optimum: line searches end with warnings),
    #   (b) a single start (n_starts=1) on a kernel with a second, 'everything is noise' optimum
    for s_ in range(job.get("n_centre", 4)):
        variant = "noise_free" if s_ % 4 != 3 else "single_start"
        n = int(rng.integers(10, 21))
        x = np.sort(rng.uniform(0, 10, size=n))
        y = np.sin(x * rng.uniform(0.8, 1.25) + rng.uniform(0, 3)) * 10.0 ** rng.uniform(-0.3, 0.3)
        cv = bool(rng.random() < 0.3)
        cctx = {"centre_rule": variant, "n": n, "cross_val": cv}
        rec.context = cctx
        np.random.seed(int(rng.integers(2**31)))
        if variant == "noise_free":
            gp = guarded(GpRegressor, x, y, cross_val=cv)
        else:
            y = y + rng.normal(size=n) * 0.4 * np.abs(y).max()
            gp = guarded(GpRegressor, x, y, kernel=SquaredExponential() + WhiteNoise(), n_starts=1, cross_val=cv)
        rec.count("selections:centre_rule:" + variant)
        rec.case(digest("centre", variant, x, y, cv), nontrivial=True)
        if isinstance(gp, Raised):
            rec.violation("raised", f"automatic hyper-parameter selection raised {gp!r}", cctx)
            continue
        hp = np.asarray(gp.hyperpars, float)
        lo = np.array([b[0] for b in gp.hp_bounds], float)
        hi = np.array([b[1] for b in gp.hp_bounds], float)
        rec.check(bool(np.all(hp >= lo - 1e-9 * (hi - lo)) and np.all(hp <= hi + 1e-9 * (hi - lo))), "selected-outside-bounds",
                  lambda: f"selected hyper-parameters {hp} outside the advertised bounds {list(zip(lo, hi))}", cctx)
        score = gp.loo_likelihood if cv else gp.marginal_likelihood
        s_sel, s_mid = float(score(hp)), float(score(0.5 * (lo + hi)))
        rec.check(s_sel >= s_mid - 1e-9 * max(abs(s_mid), 1.0), "selected-worse-than-centre",
                  lambda: f"{variant}: selected hyper-parameters score {s_sel!r}, the centre of the bounds box scores {s_mid!r}", cctx)

    # ------------------------------------------------ bounds given by the user for one component are the advertised bounds of its hyper-parameters
    from inference.gp import ChangePoint

    def plain(name):
        return {"SE": SquaredExponential, "RQ": RationalQuadratic, "WN": WhiteNoise}[name]

    layouts = [("single", ["SE"]), ("single", ["RQ"]), ("sum", ["SE", "WN"]), ("sum", ["RQ", "SE"]), ("sum", ["SE", "RQ", "WN"]), ("cp", ["SE", "RQ"]), ("cp", ["SE", "SE"]),
               ("cp", ["SE", "RQ", "SE"]), ("cp", ["SE", "SE", "RQ", "SE"])]
    for s in range(job.get("n_user_bounds", 3)):
        form, names = layouts[(s + job["j"]) % len(layouts)]
        opt, cv = [("bfgs", False), ("bfgs", True), ("diffev", False)][(s + job["j"] // 2) % 3]
        d = 1
        n = int(rng.integers(6, 13))
        x = np.sort(rng.uniform(-1, 1, size=(n, d)), axis=0) * 10.0 ** rng.uniform(-1, 1)
        ysc = 10.0 ** rng.uniform(-1, 1)
        y = ysc * (np.sin(2.5 * x.sum(axis=1) / np.abs(x).max()) + 0.2 * rng.normal(size=n))
        err = np.full(n, 0.08 * ysc)
        which = int(rng.integers(len(names)))

        def assemble(user):
            comps = [plain(nm)(hyperpar_bounds=user) if (k == which and user is not None) else plain(nm)() for k, nm in enumerate(names)]
            if form == "single":
                return comps[0]
            if form == "sum":
                out = comps[0]
                for c_ in comps[1:]:
                    out = out + c_
                return out
            if user is not None and cp_limits is not None:
                return ChangePoint(kernels=comps, location_bounds=[c_[0] for c_ in cp_limits], width_bounds=[c_[1] for c_ in cp_limits])
            return ChangePoint(kernels=comps)

        cp_limits = None
        if form == "cp" and (len(names) > 2 or rng.random() < 0.6):
            xr = float(x.min()), float(x.max())
            dx = xr[1] - xr[0]
            cp_limits = []
            for k_ in range(len(names) - 1):     # one (location, width) pair of limits per change-point, all different
                a_ = xr[0] + dx * (k_ + rng.uniform(0.1, 0.4)) / (len(names) - 1)
                cp_limits.append(((a_, a_ + dx * rng.uniform(0.1, 0.4) / (len(names) - 1)), (dx * 0.02 * (k_ + 1), dx * rng.uniform(0.05, 0.2) * (k_ + 1))))
        uctx = {"user_bounds": True, "layout": form, "components": names, "bounded_component": which, "optimizer": opt, "cross_val": cv, "n": n, "change_point_limits": cp_limits}
        rec.context = uctx
        np.random.seed(int(rng.integers(2**31)))
        g0 = guarded(GpRegressor, x, y, y_err=err, kernel=assemble(None), optimizer=opt, cross_val=cv)
        if isinstance(g0, Raised):
            rec.violation("raised", f"automatic hyper-parameter selection raised {g0!r}", uctx)
            continue
        nm_par = 1   # constant mean
        sizes = [plain(nm)().n_params if nm == "WN" else None for nm in names]
        probe = [plain(nm)() for nm in names]
        for pk in probe:
            pk.pass_spatial_data(x)
        sizes = [pk.n_params for pk in probe]
        a0 = nm_par + sum(sizes[:which])
        auto = [tuple(float(v) for v in b) for b in g0.hp_bounds[a0:a0 + sizes[which]]]
        # the user's box: a sub-box of the automatic one, placed away from where the unconstrained optimum went
        user = []
        for (lo_, hi_), sel in zip(auto, np.asarray(g0.hyperpars, float)[a0:a0 + sizes[which]]):
            w_ = hi_ - lo_
            if sel > lo_ + 0.5 * w_:
                user.append((lo_ + 0.05 * w_, lo_ + 0.3 * w_))
            else:
                user.append((lo_ + 0.7 * w_, lo_ + 0.95 * w_))
        np.random.seed(int(rng.integers(2**31)))
        g1 = guarded(GpRegressor, x, y, y_err=err, kernel=assemble(user), optimizer=opt, cross_val=cv)
        rec.count("selections:user_bounds")
        rec.case(digest("userbounds", x, y, form, names, which, opt, cv), nontrivial=True)
        if isinstance(g1, Raised):
            rec.violation("raised", f"automatic selection with user bounds on component {which} raised {g1!r}", uctx)
            continue
        adv = [tuple(float(v) for v in b) for b in g1.hp_bounds[a0:a0 + sizes[which]]]
        rec.check(all(abs(a_[0] - u_[0]) <= 1e-12 * (1 + abs(u_[0])) and abs(a_[1] - u_[1]) <= 1e-12 * (1 + abs(u_[1])) for a_, u_ in zip(adv, user)), "user-bounds-not-advertised",
                  lambda: f"{form} of {names}: component {which} was built with hyperpar_bounds={user}; the regressor advertises {adv} for those hyper-parameters", uctx)
        if cp_limits is not None:
            # flat layout of a change-point: kernel parameters first, then (location, width)
            # and its labels say which entry is which: '... location' / '... width' of change-point k
            k0 = nm_par + sum(sizes)
            m_ = 2 * (len(names) - 1)
            flat_limits = [b_ for c_ in cp_limits for b_ in c_]           # (loc0, width0, loc1, width1, ...): the order of the hyper-parameters
            adv_cp = [tuple(float(v) for v in b) for b in g1.hp_bounds[k0:k0 + m_]]
            sel_cp = np.asarray(g1.hyperpars, float)[k0:k0 + m_]
            rec.count("selections:change_point_limits")
            if len(names) > 2:
                rec.count("selections:change_point_limits:3plus_kernels")
            rec.check(all(abs(a_[0] - u_[0]) <= 1e-12 * (1 + abs(u_[0])) and abs(a_[1] - u_[1]) <= 1e-12 * (1 + abs(u_[1])) for a_, u_ in zip(adv_cp, flat_limits)), "user-bounds-not-advertised",
                      lambda: f"change-point of {names} built with (location, width) limits {cp_limits}; the regressor advertises {adv_cp} for (loc0, width0, loc1, ...)", uctx)
            rec.check(all(u_[0] - 1e-9 * (u_[1] - u_[0]) <= v_ <= u_[1] + 1e-9 * (u_[1] - u_[0]) for v_, u_ in zip(sel_cp, flat_limits)), "selected-outside-bounds",
                      lambda: f"change-point of {names} built with (location, width) limits {cp_limits}; selected (loc0, width0, loc1, ...) = {sel_cp}", uctx)
        sel = np.asarray(g1.hyperpars, float)[a0:a0 + sizes[which]]
        inside = all(u_[0] - 1e-9 * (u_[1] - u_[0]) <= v_ <= u_[1] + 1e-9 * (u_[1] - u_[0]) for v_, u_ in zip(sel, user))
        rec.check(inside, "selected-outside-bounds",
                  lambda: f"{form} of {names}: component {which} was built with hyperpar_bounds={user}; the selected values are {sel}", uctx)

    for mname, a in atts.items():
        rec.count("post:" + mname, a.calls)
        a.detach()
