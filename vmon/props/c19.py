"""C19 - density-estimator intervals, moments and normalisation are self-consistent.

Monitors: post-conditions on __call__, cdf, interval, moments and .mode of real
GaussianKDE and UnimodalPdf objects.  The oracle never uses the true distribution
of the data: it integrates the estimator's *own* density with a dense composite
Simpson rule centred on the mode, so estimation error is not confused with
implementation error.  Shift/scale covariance is checked by re-fitting a*s+b.
"""
import numpy as np

from vmon.rec import digest
from vmon.util import mk_rng, guarded, Raised

ID = "C19"
RULE = (
    "seeded samples (normal, gamma, lognormal, t5, logistic, beta; 300-20000 points; scale 1e-6..1e6; location up to 1e6 "
    "standard deviations from zero) x both estimators (one KDE in five with a bandwidth cross-validated on a sub-sample) x fractions 0.05-0.99 (UnimodalPdf also 0.99-0.9995) and a few sample points' worth; moments judged when < 1e-4 of the estimator's "
    "own probability lies outside its integration range; non-trivial = skewed or shifted sample; distinct = distinct (sample, estimator)"
)
ASSUMPTIONS = [
    "reference integrals: trapezoidal rule on 40001 uniform nodes over the sample range +- 12 standard deviations plus log-spaced nodes out to 1e7 standard deviations",
    "moment tolerances include twice the contribution of the estimator's own density beyond its integration range (that truncation is documented behaviour)",
    "UnimodalPdf re-fits under shift/scale are compared at optimiser accuracy",
]
TIMEOUT = {"quick": 500, "thorough": 3000}
REQUIRED = {"estimators:GaussianKDE": 40, "estimators:UnimodalPdf": 40, "interval_checks": 250, "moment_checks": 30,
            "covariance_reruns": 20, "cases:far_from_zero": 12, "cases:small_scale": 4}

KINDS = ["normal", "gamma", "lognormal", "t5", "logistic", "beta"]


def jobs(tier, seed):
    n_jobs = 16 if tier == "quick" else 32
    return [{"name": f"dens-{j}", "seed": seed, "j": j, "n_cases": 4 if tier == "quick" else 30} for j in range(n_jobs)]


def gen(rng, kind, n):
    if kind == "normal":
        return rng.normal(size=n)
    if kind == "gamma":
        return rng.gamma(rng.uniform(2, 9), 1, size=n)
    if kind == "lognormal":
        return rng.lognormal(0, rng.uniform(0.3, 0.6), size=n)
    if kind == "t5":
        return rng.standard_t(5, size=n)
    if kind == "logistic":
        return rng.logistic(size=n)
    return rng.beta(2, 5, size=n)


class Profile:
    """Dense tabulation of an estimator's own density, and integrals of it.

    Grid: 40001 uniform nodes over the sample range +- 12 standard deviations, continued on
    both sides by log-spaced nodes out to 1e7 standard deviations (a fitted model may have a
    long shoulder or a power-law tail).  Integrals use the trapezoidal rule (node spacing is
    ~1e-3 standard deviations in the core and 0.5% per node in the tails)."""

    def __init__(self, E, x):
        from scipy.integrate import trapezoid, cumulative_trapezoid

        sd = float(np.std(x))
        self.sd = sd
        lo, hi = x.min() - 12 * sd, x.max() + 12 * sd
        core = np.linspace(lo, hi, 40001)
        d = 12 * sd * (10.0 ** np.linspace(0, 6, 2801)[1:] - 1.0) + (core[1] - core[0])
        self.grid = np.concatenate([lo - d[::-1], core, hi + d])
        self.core = (lo, hi)
        self.p = np.asarray(E(self.grid), float)
        self.trapz = trapezoid
        self.total = float(trapezoid(self.p, x=self.grid))
        self.cum = np.concatenate([[0.0], cumulative_trapezoid(self.p, x=self.grid)])
        self.peak = float(self.p.max())
        self.argmax = float(self.grid[np.argmax(self.p)])

    def mass(self, a, b):
        return float(np.interp(b, self.grid, self.cum) - np.interp(a, self.grid, self.cum))

    def moments(self, centre):
        g, p, S = self.grid, self.p, self.trapz
        m0 = S(p, x=g)
        mu = centre + S(p * (g - centre), x=g) / m0
        var = S(p * (g - mu) ** 2, x=g) / m0
        sk = S(p * (g - mu) ** 3, x=g) / m0 / var**1.5
        ku = S(p * (g - mu) ** 4, x=g) / m0 / var**2 - 3
        return mu, var, sk, ku

    def outside(self, lo, hi, mu, sd):
        """Mass and absolute standardised moment contributions of the density outside [lo, hi]."""
        g, p, S = self.grid, self.p, self.trapz
        w = np.where((g < lo) | (g > hi), p, 0.0)
        z = np.abs(g - mu) / sd
        return [float(S(w * z**k, x=g)) for k in range(5)]


def integration_range(E):
    """The range over which the estimator integrates its moments (documented truncation)."""
    name = type(E).__name__
    try:
        if name == "GaussianKDE":
            return float(E.lwr_limit), float(E.upr_limit)
        s, f = float(E.MAP[1]), float(E.MAP[3])
        return float(E.mode - 5 * max(np.exp(-f), 1.0) * s), float(E.mode + 5 * max(np.exp(f), 1.0) * s)
    except Exception:
        return None


def run_job(job, rec):
    from inference.pdf import GaussianKDE, UnimodalPdf

    rng = mk_rng(job["seed"], "C19", job["j"])
    worst = {}

    def track(name, v):
        worst[name] = max(worst.get(name, 0.0), float(abs(v)))

    for c in range(job["n_cases"]):
        kind = KINDS[(c + job["j"]) % len(KINDS)]
        n = int(rng.choice([300, 1000, 4000, 20000], p=[0.3, 0.35, 0.25, 0.1]))
        base = gen(rng, kind, n)
        mirrored = bool(rng.random() < 0.5)
        if mirrored:
            base = -base            # left-skewed versions of every shape
            rec.count("cases:mirrored")
        sd0 = base.std()
        scale = 10.0 ** rng.uniform(-6, 6)
        shift_sd = float(rng.choice([0.0, 30.0, 1e3, -1e4, 1e6, -1e6]))
        x = (base + shift_sd * sd0) * scale
        x_in = x
        if rng.random() < 0.12:
            # integer-typed data in a narrow type (counts, ADC values): the same numbers as floats for the harness
            dt = [np.int8, np.uint8, np.int16, np.uint16, np.int32][int(rng.integers(5))]
            ii = np.iinfo(dt)
            span = float(ii.max) - float(ii.min)
            z = (base - np.median(base)) / max(sd0, 1e-300)
            v = np.clip(np.rint(float(ii.min) + span * rng.uniform(0.35, 0.65) + z * span * rng.uniform(0.03, 0.07)), float(ii.min), float(ii.max))
            x_in = v.astype(dt)
            x = v.astype(float)
            scale, shift_sd = float(np.std(x) / max(sd0, 1e-300)), float(np.mean(x) / max(np.std(x), 1e-300))
            rec.count("cases:integer_typed_sample")
        if abs(shift_sd) >= 1e3:
            rec.count("cases:far_from_zero")
        if scale < 1e-3:
            rec.count("cases:small_scale")
        for cls in (GaussianKDE, UnimodalPdf):
            name = cls.__name__
            ctx = {"case": c, "estimator": name, "kind": kind, "mirrored": mirrored, "n": n, "scale": scale, "shift_in_sd": shift_sd, "input_dtype": str(x_in.dtype)}
            rec.context = ctx
            ekw = {}
            if cls is GaussianKDE and kind not in ("ties", "tied", "counts") and not str(x_in.dtype).startswith(("int", "uint")) and rng.random() < 0.2:
                # the bandwidth chosen by cross-validation on a random sub-sample (the documented option for large samples)
                ekw = {"cross_validation": True, "max_cv_samples": int(min(300, max(n // 2, 3)))}
                ctx["bandwidth"] = "cross-validated on a sub-sample"
                cv_seed = int(rng.integers(2**31))
                np.random.seed(cv_seed)
                rec.count("cases:cross_validated_bandwidth")
            E = guarded(cls, x_in, **ekw)
            if isinstance(E, Raised):
                rec.violation("raised", f"{name} construction raised {E!r}", ctx)
                continue
            rec.count("estimators:" + name)
            rec.case(digest(name, x), nontrivial=kind not in ("normal",) or shift_sd != 0)
            if c == 0 and cls is GaussianKDE:
                rec.sample({**ctx, "sample_head": x[:4]})
            P = Profile(E, x)
            sd = P.sd
            is_kde = cls is GaussianKDE

            # 1. normalisation (the KDE may drop up to exp(-3.5^2/2) of each kernel's mass)
            tol_norm = 3e-3 if is_kde else 1e-3
            track(name + ":norm", P.total - 1)
            rec.check(abs(P.total - 1) <= tol_norm, "not-normalised", lambda: f"{name} density integrates to {P.total!r}", ctx)
            rec.check(bool(np.all(P.p >= 0)), "negative-density", "negative density", ctx)
            # far away and at infinity: the cumulative function has reached 0 / the total probability, singly and in one call with near points
            far_ = float(10.0 ** rng.uniform(5, 12)) * sd
            xs_ = np.array([x.mean() - far_, x.mean() + far_, -np.inf, np.inf])
            cf = [guarded(E.cdf, np.array([v_])) for v_ in xs_]
            cj = guarded(E.cdf, np.array([x.mean() - far_, float(np.median(x)), x.mean() + far_]))
            rec.count("far_point_checks")
            okf = not any(isinstance(v_, Raised) for v_ in cf) and not isinstance(cj, Raised)
            if okf:
                cfv = np.array([float(np.ravel(v_)[0]) for v_ in cf])
                # (the kernel estimate's density drops up to 2 Phi(-3.5) = 4.7e-4 of its mass by truncation while its cumulative function reaches 1)
                tol_far = 6e-4 if is_kde else 2e-4
                okf = bool(np.all(np.abs(cfv - np.array([0, P.total, 0, P.total])) <= tol_far)) and abs(float(cj[2]) - P.total) <= tol_far and abs(float(cj[0])) <= 2e-4 \
                    and abs(float(cj[1]) - P.mass(-np.inf, float(np.median(x)))) <= 2e-3
            rec.check(okf, "cdf-far-points",
                      lambda: f"{name}: cdf at mean -+ {far_ / sd:.3g} sd and at -+inf = {cf!r}; cdf([far below, median, far above]) = {cj!r}; the density integrates to {P.total!r}", ctx)

            # 2. cdf is the integral of the density
            pts = np.sort(rng.uniform(x.min() - 2 * sd, x.max() + 2 * sd, size=6))
            pts = rng.permutation(pts)
            cv = guarded(E.cdf, pts)
            if isinstance(cv, Raised):
                rec.violation("raised", f"{name}.cdf raised {cv!r}", ctx)
                continue
            cv = np.asarray(cv, float)
            o = np.argsort(pts)
            tol_cdf = (2 * 2.4e-4 + 3e-3 * 1.0) if is_kde else 2e-5
            for i, j in zip(o[:-1], o[1:]):
                ref = P.mass(pts[i], pts[j])
                d = (cv[j] - cv[i]) - ref
                track(name + ":cdf_diff", d)
                rec.check(abs(d) <= (4.8e-4 + 2.5e-3 * ref if is_kde else 2e-5 + 1e-5 * ref), "cdf-not-integral-of-pdf",
                          lambda: f"{name}: cdf({pts[j]!r}) - cdf({pts[i]!r}) = {cv[j] - cv[i]!r} but the density integrates to {ref!r} there", ctx)
            rec.check(bool(np.all(np.diff(cv[o]) >= -5e-4)), "cdf-decreasing", "cdf decreases", ctx)
            # absolute level: cdf(x) is the integral of the density from -infinity (no clipped tail).
            # Each point is evaluated on its own: the property is about the value of the cdf, not about
            # the quadrature between widely separated evaluation points.
            tol_abs = 3e-3 if is_kde else 3e-4
            for xx in (pts[o][0], pts[o][-1], P.core[0], P.core[1]):
                cc = guarded(E.cdf, float(xx))
                if isinstance(cc, Raised):
                    rec.violation("raised", f"{name}.cdf({xx!r}) raised {cc!r}", ctx)
                    continue
                cc = float(cc)
                ref = P.mass(P.grid[0], xx) / P.total
                track(name + ":cdf_level", cc - ref)
                rec.check(abs(cc - ref) <= tol_abs, "cdf-level",
                          lambda: f"{name}: cdf({xx!r}) = {cc!r} but the density integrates to {ref!r} below that point (a tail is clipped?)", ctx)

            # integer-typed evaluation points: same answers as the same values as floats
            if x.max() - x.min() > 6 and np.abs(x).max() < 1e15:
                xi = np.unique(np.round(rng.uniform(x.min(), x.max(), size=6)).astype(np.int64))
                pa, pb = guarded(E, xi), guarded(E, xi.astype(float))
                ca, cb = guarded(E.cdf, xi), guarded(E.cdf, xi.astype(float))
                rec.count("integer_query_cases")
                okd = not any(isinstance(v, Raised) for v in (pa, pb, ca, cb)) and np.allclose(pa, pb, rtol=1e-12, atol=0) and np.allclose(ca, cb, rtol=0, atol=1e-9)
                rec.check(okd, "depends-on-dtype-of-points", lambda: f"{name}: integer-typed evaluation points give {pa!r}, floats give {pb!r}", ctx)

            # history: the same query array modified in place; repeated calls return the same values
            xq = np.sort(rng.uniform(x.min(), x.max(), size=5))
            p1, c1 = guarded(E, xq), guarded(E.cdf, xq)
            xq -= 0.1 * sd
            guarded(E, xq)
            guarded(E.cdf, xq)
            xq += 0.4 * sd
            p2, c2 = guarded(E, xq), guarded(E.cdf, xq)
            p3, c3 = guarded(E, xq.copy()), guarded(E.cdf, xq.copy())
            rec.count("in_place_query_updates")
            okq = not any(isinstance(v, Raised) for v in (p1, c1, p2, c2, p3, c3)) and np.array_equal(p2, p3) and bool(np.allclose(c2, c3, rtol=0, atol=1e-9))
            if okq and not np.array_equal(np.asarray(p1), np.asarray(p3)):
                rec.count("in_place_query_updates:values_changed")    # (a stale answer would have been visible)
            rec.check(okq, "stale-after-in-place-update", lambda: f"{name}: evaluating the same query array after modifying it in place gives {p2!r}, a fresh array gives {p3!r}", ctx)
            i_a, i_b = guarded(E.interval, 0.5), guarded(E.interval, 0.5)
            m_a, m_b = guarded(E.moments), guarded(E.moments)
            rec.check(not any(isinstance(v, Raised) for v in (i_a, i_b, m_a, m_b)) and np.allclose(i_a, i_b, rtol=1e-9, atol=0) and np.allclose(m_a, m_b, rtol=1e-12, atol=0),
                      "repeated-call-differs", lambda: f"{name}: interval / moments differ between two identical calls: {i_a} vs {i_b}; {m_a} vs {m_b}", ctx)

            # 3. mode: a point of maximal estimated density
            pm = guarded(E, float(E.mode))
            if isinstance(pm, Raised):
                rec.violation("raised", f"evaluating the density at the mode raised {pm!r}", ctx)
                continue
            deficit = (P.peak - float(pm)) / P.peak
            bracket_only = False
            if is_kde and deficit > 1e-3 and x.size > 50:
                # The KDE looks for its mode inside the 20% highest-density interval of the *sample*.  When the reported point is the
                # best point of that bracket but the density is higher outside it, the failure is the recorded known finding
                # (mechanism: the bracket excludes the peak - tied / quantised samples, where the shortest window is arbitrary among
                # many of equal width, and occasionally skewed ones); anything worse than the best point of the bracket is a new violation.
                from inference.pdf import sample_hdi as _hdi

                blo, bhi = _hdi(np.sort(x), 0.2)
                inb = (P.grid >= blo) & (P.grid <= bhi)
                if inb.any() and (float(P.p[inb].max()) - float(pm)) / P.peak <= 1e-3:
                    rec.count("mode_maximal_only_within_search_bracket")
                    bracket_only = True
            track(name + ":mode_deficit", max(deficit, 0))
            if bracket_only:
                rec.violation("kde-mode-search-bracket-excludes-peak",
                              f"{name}: the reported mode {E.mode!r} is the best point of the search bracket [{blo!r}, {bhi!r}] (20% interval of the sample) but the density is "
                              f"{deficit:.2e} higher at {P.argmax!r}, outside it", ctx)
            else:
                rec.check(deficit <= 1e-3, "mode-not-maximal",
                          lambda: f"{name}: density at the reported mode {E.mode!r} is {float(pm)!r}, but it reaches {P.peak!r} at {P.argmax!r} ({deficit:.2e} lower)", ctx)

            # 4. highest-density intervals
            # (the last fraction holds only a handful of sample points: the interval of the sample it starts from is then a tiny cluster anywhere)
            fracs = [float(rng.uniform(0.05, 0.3)), float(rng.uniform(0.3, 0.8)), float(rng.uniform(0.8, 0.99)), float(rng.uniform(0.6, 15.0) / n)]
            if not is_kde:
                # 0.99 .. 0.9995: the interval reaches into the tails (smooth estimator only: a kernel estimate's tails are bumps around single
                # sample points, where "the" interval of a given content is one of several - see DESIGN.md section 8)
                fracs.append(float(1.0 - 10.0 ** mk_rng(job["seed"], "C19-high", job["j"], c, name).uniform(-3.3, -2.0)))
                rec.count("cases:fraction_above_0.99")
            if ekw:
                # a cross-validated bandwidth is usually well below the rule of thumb: the estimate is bumpy at every height, "the" interval of a given
                # content is one of several (plateau clause) - intervals are not judged for these estimators (normalisation, cdf, mode, moments are)
                rec.count("kde_cross_validated_intervals_not_judged")
                fracs = []
            for f in fracs:
                iv = guarded(E.interval, f)
                if isinstance(iv, Raised):
                    rec.violation("raised", f"{name}.interval({f}) raised {iv!r}", ctx)
                    continue
                a, b = float(iv[0]), float(iv[1])
                ca, cb = (float(v) for v in E.cdf(np.array([a, b])))
                pa, pb = (float(v) for v in E(np.array([a, b])))
                rec.count("interval_checks")
                ictx = {**ctx, "fraction": f, "interval": [a, b]}
                track(name + ":interval_mass", (cb - ca) - f)
                track(name + ":interval_density", abs(pa - pb) / P.peak)
                # (the search stops when its cost, the squared mass error plus the density term, is settled to 1e-10; for fractions of
                #  the order of 1e-4 an absolute bound says nothing, hence the relative one)
                ok_mass = a < b and abs((cb - ca) - f) <= min(3e-5, 0.05 * f)
                bumpy_end = False
                if is_kde and f >= 0.8 and a < b:
                    # a kernel estimate's tails are bumps around single sample points. Where an end of the returned interval lies within two
                    # bandwidths of a local extremum of the estimate, "equal end densities" has several solutions (the property's plateau clause,
                    # as for narrow intervals around a bumpy top) and the search settles in one of them, trading a little mass against the
                    # density mismatch: accepted up to 1e-3 in content, end densities not judged; counted.
                    hh = float(E.h)
                    for end in (a, b):
                        g_ = np.asarray(E(np.linspace(end - 2 * hh, end + 2 * hh, 41)), float)
                        dg = np.diff(g_)
                        if not (np.all(dg >= 0) or np.all(dg <= 0)):
                            bumpy_end = True
                    if bumpy_end:
                        rec.count("kde_interval_end_on_a_tail_bump")
                        ok_mass = abs((cb - ca) - f) <= 1e-3
                if not ok_mass and bracket_only and a < b and abs((cb - ca) - f) <= 1e-2:
                    # the interval search is centred on and weighted by the reported mode; where that mode is the recorded known finding
                    # (best point of its bracket, peak outside) the search stalls next to it: same mechanism, same finding
                    rec.violation("kde-mode-search-bracket-excludes-peak",
                                  f"{name}: interval({f:.4f}) = ({a!r}, {b!r}) holds {cb - ca!r}: the search started from a reported mode that is not the peak of the density", ictx)
                    continue
                if a < b and min(pa, pb) <= 1e-8 * P.peak and (cb - ca) - f >= -3e-5 \
                        and (not ok_mass or abs(pa - pb) > 1e-3 * P.peak):
                    # (signature of the stall: the end in the empty region contributes its whole tail, the other end has been moved *outwards* to
                    #  lower its density, so the interval holds more than f - never less - and the density mismatch is that of the far tail)
                    # recorded known finding: for a fraction close to one an end of the search's starting interval (the sample's own interval)
                    # lies where the estimated density is numerically zero and flat; there the search's cost has a stationary point at which the
                    # density of the *other* end is traded against the mass error (see KNOWN_FINDINGS.txt). Anything larger is reported as usual.
                    rec.violation("interval-search-stalls-with-an-end-in-an-empty-region",
                                  f"{name}: interval({f:.4f}) = ({a!r}, {b!r}) holds {cb - ca!r}; end densities {pa / P.peak:.2e} and {pb / P.peak:.2e} of the peak", ictx)
                    continue
                if a < b and (not ok_mass or abs(pa - pb) > 1e-3 * P.peak) and not bumpy_end:
                    # second recorded finding about the search: scipy's Nelder-Mead stops on the spread of its simplex, not on the cost, and can
                    # collapse early. Verified case by case: the library's own search, started again from the interval it returned, lowers
                    # its own cost by orders of magnitude and then meets the content tolerance.
                    stalled = None
                    try:
                        from scipy.optimize import minimize as _min
                        from inference.pdf.hdi import sample_hdi as _shdi
                        wgt_ = 0.2 / float(E(E.mode))

                        def cost_(th_, fr_, pw_):
                            # the documented cost, written out here from the estimator's public density and cumulative function
                            v_ = np.array([th_[0] - 0.5 * th_[1], th_[0] + 0.5 * th_[1]])
                            Pa_, Pb_ = E(v_)
                            Fa_, Fb_ = E.cdf(v_)
                            return (pw_ * (Pa_ - Pb_)) ** 2 + (Fb_ - Fa_ - fr_) ** 2

                        # first: the documented search itself (start from the sample's interval, one Nelder-Mead run), replayed by the harness, must
                        # return the very interval the library returned - otherwise the library did something else and this finding does not apply
                        l_, u_ = (float(v) for v in _shdi(E.sample, fraction=f))
                        cc_, ww_ = 0.5 * (l_ + u_), max(u_ - l_, f / float(E(E.mode)))
                        if not l_ < float(E.mode) < u_:
                            cc_ = float(E.mode)
                        s0_ = np.array([[cc_, ww_], [cc_, 0.95 * ww_], [cc_ - 0.05 * ww_, ww_]])
                        r0_ = _min(fun=cost_, x0=s0_[0], method="Nelder-Mead", options={"initial_simplex": s0_, "xatol": 1e-5 * ww_, "fatol": 1e-10}, args=(f, wgt_))
                        same_ = abs((r0_.x[0] - 0.5 * r0_.x[1]) - a) <= 1e-9 * (b - a) and abs((r0_.x[0] + 0.5 * r0_.x[1]) - b) <= 1e-9 * (b - a)
                        if not same_:
                            raise LookupError("the library's interval is not the result of the documented search")
                        c0_, w0_ = 0.5 * (a + b), b - a
                        sx_ = np.array([[c0_, w0_], [c0_, 0.95 * w0_], [c0_ - 0.05 * w0_, w0_]])
                        r_ = _min(fun=cost_, x0=sx_[0], method="Nelder-Mead", options={"initial_simplex": sx_, "xatol": 1e-5 * w0_, "fatol": 1e-10}, args=(f, wgt_))
                        before_ = float(cost_(sx_[0], f, wgt_))
                        a2_, b2_ = r_.x[0] - 0.5 * r_.x[1], r_.x[0] + 0.5 * r_.x[1]
                        ca2_, cb2_ = (float(v) for v in E.cdf(np.array([a2_, b2_])))
                        if r_.fun < 1e-3 * before_ and abs((cb2_ - ca2_) - f) <= min(3e-5, 0.05 * f):
                            stalled = (before_, float(r_.fun))
                    except Exception:  # noqa: BLE001 - no access to the library's cost: judged as an ordinary violation below
                        stalled = None
                    if stalled is not None:
                        rec.violation("interval-search-stops-before-convergence",
                                      f"{name}: interval({f:.4f}) = ({a!r}, {b!r}) holds {cb - ca!r}; the documented search restarted from there lowers its cost "
                                      f"from {stalled[0]:.3g} to {stalled[1]:.3g} and meets the content", ictx)
                        continue
                rec.check(ok_mass, "interval-mass",
                          lambda: f"{name}: interval({f:.4f}) = ({a!r}, {b!r}) holds probability {cb - ca!r} under the estimator's own cdf", ictx)
                # a kernel estimate is bumpy on the scale of its bandwidth, so for a narrow interval around the
                # top "equal end densities" has several solutions (plateau clause): judged for f >= 0.3 only
                if is_kde and f < 0.3:
                    rec.count("kde_end_density_not_judged_small_fraction")
                    continue
                if bumpy_end:
                    continue
                rec.check(abs(pa - pb) <= 1e-3 * P.peak, "interval-end-densities",
                          lambda: f"{name}: interval({f:.4f}) end densities {pa!r} and {pb!r} differ by {abs(pa - pb) / P.peak:.2e} of the peak", ictx)

            # 5. moments of the estimated density itself
            mo = guarded(E.moments)
            if isinstance(mo, Raised):
                rec.violation("raised", f"{name}.moments raised {mo!r}", ctx)
                continue
            mu, var, sk, ku = (float(v) for v in mo)
            rmu, rvar, rsk, rku = P.moments(float(E.mode))
            rs = np.sqrt(rvar)
            rngE = integration_range(E)
            T = P.outside(rngE[0], rngE[1], rmu, rs) if rngE else None
            if T is not None and T[0] < 1e-4:
                rec.count("moment_checks")
                track(name + ":mean", (mu - rmu) / rs)
                track(name + ":var", var / rvar - 1)
                rec.check(abs(mu - rmu) <= (3e-4 + 2 * T[1]) * rs, "moment-mean",
                          lambda: f"{name}: mean {mu!r}, the density's own mean is {rmu!r} (difference {(mu - rmu) / rs:.2e} sd; data at {shift_sd:g} sd from zero)", ctx)
                rec.check(abs(var / rvar - 1) <= 1e-3 + 2 * T[2] + 2 * T[0], "moment-variance",
                          lambda: f"{name}: variance {var!r}, the density's own variance is {rvar!r}", ctx)
                rec.check(abs(sk - rsk) <= 3e-3 + 2 * T[3] + 3 * abs(rsk) * (T[2] + T[0] + 1e-3), "moment-skewness",
                          lambda: f"{name}: skewness {sk!r}, the density's own skewness is {rsk!r}", ctx)
                rec.check(abs(ku - rku) <= 1e-2 + 2 * T[4] + 4 * (abs(rku) + 3) * (T[2] + T[0] + 1e-3), "moment-kurtosis",
                          lambda: f"{name}: excess kurtosis {ku!r}, the density's own is {rku!r}", ctx)
            else:
                rec.count("moments_not_judged_mass_outside_range")

            # 6. shift / scale covariance (re-fit on a*s+b)
            if rng.random() < (0.6 if is_kde else 0.35):
                al = 10.0 ** rng.uniform(-3, 3)
                be = float(rng.choice([0.0, 5.0, -200.0])) * sd * al
                if ekw:
                    np.random.seed(cv_seed)       # the same random sub-sample for the rescaled data
                E2 = guarded(cls, al * x + be, **ekw)
                rec.count("covariance_reruns")
                cctx = {**ctx, "a": al, "b": be}
                if isinstance(E2, Raised):
                    rec.violation("raised", f"{name} on a*s+b raised {E2!r}", cctx)
                    continue
                loose = not is_kde
                f = 0.68
                i1, i2 = guarded(E.interval, f), guarded(E2.interval, f)
                m1, m2 = guarded(E.moments), guarded(E2.moments)
                if any(isinstance(v, Raised) for v in (i1, i2, m1, m2)):
                    rec.violation("raised", "interval/moments raised on the rescaled sample", cctx)
                    continue
                # (the mean itself is required to be that of the density to 3e-4 sd - its quadrature grid has an integer number of nodes that
                #  can change by one under rescaling; the covariance of mean and interval is not judged more strictly than that)
                tol_loc = (5e-2 if loose else 3e-4) * sd * al
                track(name + ":cov_mode", (E2.mode - (al * E.mode + be)) / (sd * al))
                tied = np.unique(x).size < 0.9 * x.size
                if loose and tied:
                    # quantised data leave the six-parameter unimodal family under-determined: re-fits with the same likelihood to 1e-3 can differ by a
                    # third of the peak (plateau vs peak over a few lattice points).  For such samples only the quality of the fit is required to follow the data.
                    ll1 = float(np.mean(np.log(np.asarray(E(x), float))))
                    ll2 = float(np.mean(np.log(np.asarray(E2(al * x + be), float)))) + np.log(al)
                    track(name + ":cov_loglik_tied", ll2 - ll1)
                    rec.count("unimodal_covariance:tied_sample_fit_quality_only")
                    rec.check(abs(ll2 - ll1) <= 2e-2, "fit-quality-not-covariant",
                              lambda: f"{name}: mean log-density of the (tied) data under the fit is {ll1!r}, under the re-fit of a*s+b it is {ll2!r}", cctx)
                elif loose:
                    # the location parameter of the flexible unimodal model is weakly determined when the
                    # top of the density is flat; compare the densities instead of the parameter
                    d2 = float(E2(al * E.mode + be)) / float(E2(E2.mode))
                    track(name + ":cov_mode_density", 1 - d2)
                    rec.check(d2 >= 0.85, "mode-not-covariant",
                              lambda: f"{name}: mode of a*s+b is {E2.mode!r}, expected {al * E.mode + be!r} (density there is {d2:.4f} of the peak)", cctx)
                    gx = np.linspace(x.min(), x.max(), 201)
                    dd = np.abs(al * np.asarray(E2(al * gx + be), float) - np.asarray(E(gx), float)).max() / P.peak
                    track(name + ":cov_density", dd)
                    rec.check(dd <= 0.3, "density-not-covariant",
                              lambda: f"{name}: a*pdf'(a x + b) differs from pdf(x) by {dd:.3e} of the peak", cctx)
                    # both fits maximise the same likelihood: the re-fit must describe the data equally well
                    ll1 = float(np.mean(np.log(np.asarray(E(x), float))))
                    ll2 = float(np.mean(np.log(np.asarray(E2(al * x + be), float)))) + np.log(al)
                    track(name + ":cov_loglik", ll2 - ll1)
                    rec.check(abs(ll2 - ll1) <= 2e-2, "fit-quality-not-covariant",
                              lambda: f"{name}: mean log-density of the data under the fit is {ll1!r}, under the re-fit of a*s+b it is {ll2!r}", cctx)
                else:
                    ok_loc = abs(E2.mode - (al * E.mode + be)) <= 2e-3 * sd * al
                    if not ok_loc:
                        # a mode that is only the best point of its (sample-derived, tie-broken) search bracket is not covariant either: same known finding
                        pk2 = float(np.asarray(E2(al * P.grid + be), float).max())
                        d_a, d_b = (P.peak - float(E(float(E.mode)))) / P.peak, (pk2 - float(E2(float(E2.mode)))) / pk2
                        from inference.pdf import sample_hdi as _hdi2

                        def at_edge(E_, data):
                            b0, b1 = _hdi2(np.sort(data), 0.2)
                            return (b1 - b0) <= 0 or min(abs(E_.mode - b0), abs(E_.mode - b1)) <= 1e-3 * (b1 - b0)

                        edge = x.size > 50 and (at_edge(E, x) or at_edge(E2, al * x + be))
                        if max(d_a, d_b) > 1e-3 or edge:
                            rec.violation("kde-mode-search-bracket-excludes-peak",
                                          f"{name}: mode of a*s+b is {E2.mode!r}, expected {al * E.mode + be!r}: the reported modes lie {d_a:.2e} / {d_b:.2e} below the peaks "
                                          f"of their densities (each is the best point of its own search bracket only{'; a reported mode sits on the edge of its bracket' if edge else ''})", cctx)
                            ok_loc = True
                    rec.check(ok_loc, "mode-not-covariant",
                              lambda: f"{name}: mode of a*s+b is {E2.mode!r}, expected {al * E.mode + be!r}", cctx)
                if loose and tied:
                    # (tied samples: only the quality of the fit is required to follow the data, see above - two equally good fits of quantised data
                    #  have different shapes, hence different intervals and moments)
                    rec.count("unimodal_covariance:tied_sample_interval_and_moments_not_compared")
                    continue
                track(name + ":cov_interval", max(abs(i2[0] - (al * i1[0] + be)), abs(i2[1] - (al * i1[1] + be))) / (sd * al))
                rec.check(abs(i2[0] - (al * i1[0] + be)) <= tol_loc * 3 and abs(i2[1] - (al * i1[1] + be)) <= tol_loc * 3, "interval-not-covariant",
                          lambda: f"{name}: interval of a*s+b is {i2}, expected {(al * i1[0] + be, al * i1[1] + be)}", cctx)
                track(name + ":cov_mean", (m2[0] - (al * m1[0] + be)) / (sd * al))
                rec.check(abs(m2[0] - (al * m1[0] + be)) <= tol_loc, "mean-not-covariant",
                          lambda: f"{name}: mean of a*s+b is {m2[0]!r}, expected {al * m1[0] + be!r}", cctx)
                rec.check(abs(m2[1] / (al * al * m1[1]) - 1) <= (3e-1 if loose else 1e-4), "variance-not-covariant",
                          lambda: f"{name}: variance of a*s+b is {m2[1]!r}, expected {al * al * m1[1]!r}", cctx)
                if not loose:
                    # (the tail parameters of the unimodal model are weakly determined by the data, so the shape
                    #  moments of two independent fits are not comparable; its moments are judged in step 5)
                    rec.check(abs(m2[2] - m1[2]) <= 1e-3 and abs(m2[3] - m1[3]) <= 5e-3, "shape-moments-not-invariant",
                              lambda: f"{name}: skewness/kurtosis of a*s+b are {m2[2:]} vs {m1[2:]}", cctx)
    rec.note("worst_observed", worst)
