"""Run a list of independent jobs, each in its own interpreter, in parallel."""
import json
import os
import shutil
import subprocess
import sys
import tempfile
import time

from vmon.boot import VERIF_DIR, child_env

PYTHON = os.environ.get("VERIF_PYTHON", "/venv/bin/python")


def run_jobs(prop, jobs, timeout_s, nproc=None):
    nproc = nproc or int(os.environ.get("VERIF_NPROC", os.cpu_count() or 4))
    os.makedirs(os.path.join(VERIF_DIR, ".work"), exist_ok=True)
    work = tempfile.mkdtemp(prefix=f"{prop}-", dir=os.path.join(VERIF_DIR, ".work"))
    env = child_env()
    results = [None] * len(jobs)
    pending = list(range(len(jobs)))
    running = {}
    try:
        # an external `timeout` / kill of the check must not leave workers behind: turn SIGTERM into an exit that runs the clean-up below
        import signal
        signal.signal(signal.SIGTERM, lambda *_a: sys.exit(143))
    except (ValueError, OSError):
        pass
    try:
        while pending or running:
            while pending and len(running) < nproc:
                i = pending.pop(0)
                jp = os.path.join(work, f"job{i}.json")
                op = os.path.join(work, f"out{i}.json")
                with open(jp, "w") as f:
                    json.dump(jobs[i], f)
                log = open(os.path.join(work, f"log{i}.txt"), "w")
                p = subprocess.Popen(
                    [PYTHON, "-m", "vmon.worker", prop, jp, op],
                    cwd=work,
                    env=env,
                    stdout=log,
                    stderr=subprocess.STDOUT,
                    start_new_session=True,
                )
                running[i] = (p, time.time(), op, log)
            time.sleep(0.05)
            for i in list(running):
                p, t0, op, log = running[i]
                rc = p.poll()
                if rc is None and time.time() - t0 > timeout_s:
                    try:
                        os.killpg(p.pid, 9)
                    except Exception:
                        p.kill()
                    p.wait()
                    rc = "timeout"
                if rc is None:
                    continue
                log.close()
                del running[i]
                if rc == 0 and os.path.exists(op):
                    with open(op) as f:
                        results[i] = json.load(f)
                else:
                    try:
                        tail = open(log.name).read()[-1500:]
                    except Exception:
                        tail = ""
                    why = (
                        f"watchdog: job exceeded {timeout_s}s"
                        if rc == "timeout"
                        else f"worker exited with {rc}: {tail}"
                    )
                    results[i] = {
                        "job": jobs[i],
                        "evaluations": 0,
                        "nontrivial": [],
                        "violations": [],
                        "n_violations": 0,
                        "counters": {},
                        "samples": [],
                        "inconclusive": [why],
                        "notes": {},
                        "wall_s": time.time() - t0,
                    }
    finally:
        for i, (p, *_rest) in running.items():
            try:
                os.killpg(p.pid, 9)
            except Exception:
                pass
        shutil.rmtree(work, ignore_errors=True)
    return results
