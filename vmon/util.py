"""Small shared helpers: seeded generators, guarded calls, numeric derivatives."""
import zlib

import numpy as np


def mk_rng(seed, *tags):
    words = [int(seed) & 0xFFFFFFFF] + [zlib.crc32(str(t).encode()) for t in tags]
    return np.random.default_rng(np.random.SeedSequence(words))


class Raised:
    """Result of a guarded call that raised."""

    def __init__(self, exc):
        self.exc = exc

    def __repr__(self):
        return f"Raised({type(self.exc).__name__}: {str(self.exc).strip()[:200]})"


def guarded(fn, *a, **k):
    try:
        return fn(*a, **k)
    except Exception as exc:  # noqa: BLE001 - the monitor judges it
        return Raised(exc)


def ulp(x):
    return np.spacing(np.abs(np.asarray(x, dtype=float)))


def richardson(f, x, h, order=2):
    """Central-difference derivative of scalar/array-valued f at scalar x with one
    Richardson extrapolation step: error O(h^4)."""
    d1 = (f(x + h) - f(x - h)) / (2 * h)
    d2 = (f(x + h / 2) - f(x - h / 2)) / h
    return (4 * d2 - d1) / 3


def num_grad(f, x, h):
    """Richardson central-difference gradient of f: R^n -> R (or array) at x.
    h may be a scalar or per-coordinate array."""
    x = np.asarray(x, dtype=float)
    hs = np.broadcast_to(np.asarray(h, dtype=float), x.shape)
    out = []
    for i in range(x.size):
        def fi(t, i=i):
            y = x.copy()
            y[i] = t
            return np.asarray(f(y), dtype=float)
        out.append(richardson(fi, x[i], hs[i]))
    return np.array(out)


def rel_err(a, b, floor=0.0):
    a = np.asarray(a, dtype=float)
    b = np.asarray(b, dtype=float)
    scale = np.maximum(np.maximum(np.abs(a), np.abs(b)), floor)
    scale = np.where(scale == 0, 1.0, scale)
    return float(np.max(np.abs(a - b) / scale)) if a.size else 0.0


def snapshot(arr):
    """Bytes + shape + dtype of an array-like the caller owns."""
    a = np.asarray(arr)
    return (a.shape, str(a.dtype), a.tobytes())
