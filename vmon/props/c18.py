"""C18 - acquisition functions compute what they define; proposals respect bounds.

Monitors: post-conditions on __call__ / opt_func / opt_func_gradient of the three
acquisition classes attached to real regressors, and state invariants around
GpOptimiser.propose_evaluation / add_evaluation.
Oracles: direct quadrature of E[max(f - y_max, 0)] under N(mu, sigma^2) with the
exponent factored out; definitions of UCB and max-variance; Richardson derivative
of the real opt_func; bounds membership; data / incumbent / caller-array invariants.
"""
import numpy as np

from vmon.rec import digest
from vmon.util import mk_rng, guarded, Raised, num_grad_stable, snapshot
from vmon import gpgen as G

ID = "C18"
RULE = (
    "seeded regressors (SE kernel, all three means, d = 1-3, data with a dominant maximum of random height so that "
    "improvement z-scores span -1e3..+40) x query points, plus points bisected onto both sides of the z = -3 branch switch; "
    "seeded propose/add sequences for 3 acquisition classes x 2 optimisers in 1-2 dimensions with list / 1-D / 2-D inputs; "
    "non-trivial = |z| > 0.1 (acquisition cases) or a completed propose+add iteration; distinct = distinct (regressor, query)"
)
ASSUMPTIONS = [
    "scipy.integrate.quad on the smooth integrand s*exp(-s^2/2 + s z) is the reference for expected improvement",
    "both branches of the EI evaluation are proven reached by counting monitored evaluations with z < -3 and z >= -3 (z from the regressor's own prediction)",
]
TIMEOUT = {"quick": 400, "thorough": 2400}
REQUIRED = {"ei:z<-40": 20, "ei:-40<=z<-3": 50, "ei:-3<=z<0": 50, "ei:z>=0": 20, "ei:switch_pairs": 10,
            "post:opt_func_gradient": 200, "gradient_checks": 200, "optimiser_iterations": 30, "proposals:bfgs": 15, "proposals:diffev": 6, "default_optimiser_pairs": 8, "proposals:on_a_bound": 30}


def jobs(tier, seed):
    n_jobs = 16 if tier == "quick" else 32
    return [{"name": f"acq-{j}", "seed": seed, "j": j, "n_gps": 30 if tier == "quick" else 150,
             "n_opt": 3 if tier == "quick" else 12, "n_pairs": 1 if tier == "quick" else 4, "n_face": 12 if tier == "quick" else 60} for j in range(n_jobs)]


def ei_reference(mu, sig, ymax):
    """(EI, log EI) by quadrature of the definition E[max(f - ymax, 0)], f ~ N(mu, sig^2)."""
    from scipy.integrate import quad

    z = (mu - ymax) / sig
    if z < 0:
        # EI = sig * phi(z) * I,  I = int_0^inf s exp(-s^2/2 + s z) ds
        U = min(40.0, 60.0 / max(abs(z), 1e-300))
        I, _ = quad(lambda s: s * np.exp(-0.5 * s * s + s * z), 0.0, U, epsabs=0, epsrel=1e-12, limit=400)
        log_ei = np.log(sig) - 0.5 * z * z - 0.5 * np.log(2 * np.pi) + np.log(I)
    else:
        # EI = sig * int_0^inf s phi(s - z) ds
        lo, hi = max(0.0, z - 40.0), z + 40.0
        I, _ = quad(lambda s: s * np.exp(-0.5 * (s - z) ** 2) / np.sqrt(2 * np.pi), lo, hi, epsabs=0, epsrel=1e-12,
                    limit=400, points=[z] if lo < z < hi else None)
        log_ei = np.log(sig) + np.log(I)
    return z, float(np.exp(log_ei)) if log_ei > -745 else 0.0, float(log_ei)


def make_gp(rng):
    from inference.gp import GpRegressor, SquaredExponential

    d = int(rng.choice([1, 1, 2, 3]))
    n = int(rng.choice([4, 6, 9, 14]))
    x = G.random_points(rng, n, d)
    # the unit of the objective is arbitrary: mostly O(1e-2..1e2), sometimes tiny or huge
    ysc = 10.0 ** (rng.uniform(-2, 2) if rng.random() < 0.7 else rng.uniform(-10, 7))
    span = np.where(np.ptp(x, axis=0) > 0, np.ptp(x, axis=0), 1.0)
    y = ysc * (np.sin(2.5 * (x - x.mean(0)) @ (rng.normal(size=d) / span)) + 0.1 * rng.normal(size=n))
    # a dominant maximum of random height
    y[rng.integers(n)] += ysc * 10.0 ** rng.uniform(-1, 2.5)
    mean_name = str(rng.choice(G.MEANS))
    tm = G.random_mean_theta(mean_name, rng, x, ysc)
    tc = G.random_theta(("SE",), rng, x, ysc)
    err = ysc * 10.0 ** rng.uniform(-3, -0.5, size=n)
    gp = GpRegressor(x, y, y_err=err, hyperpars=np.concatenate([tm, tc]), kernel=SquaredExponential(), mean=G.build_repo_mean(mean_name))
    return gp, dict(d=d, n=n, mean=mean_name, x=x, y=y, span=span, L=np.exp(tc[1:]), ysc=ysc)


def check_ei_point(rec, acq, gp, q, tag):
    mu, sig = gp(q)
    mu, sig = float(mu[0]), float(sig[0])
    if not (sig > 0 and np.isfinite(sig)):
        return None
    z, ei_ref, log_ref = ei_reference(mu, sig, acq.mu_max)
    ctx = {**rec.context, "z": z, "mu": mu, "sigma": sig, "y_max": float(acq.mu_max), "query": q, "tag": tag}
    if z < -1e3:
        return z
    v = guarded(acq, q)
    o = guarded(acq.opt_func, q)
    if isinstance(v, Raised) or isinstance(o, Raised):
        rec.violation("raised", f"ExpectedImprovement raised {v!r} / {o!r} at z={z:.3f}", ctx)
        return z
    v, o = float(v), float(o)
    v2 = guarded(acq, q)
    if isinstance(v2, Raised) or float(v2) != v:
        rec.violation("repeated-call-differs", f"two identical evaluations of expected improvement differ: {v!r} then {v2!r}", ctx)
    rec.count("ei:z<-40" if z < -40 else "ei:-40<=z<-3" if z < -3 else "ei:-3<=z<0" if z < 0 else "ei:z>=0")
    # far tail: 1 + z R(z) loses digits by cancellation ~ eps * z^2, so the tolerance follows that
    rel = 1e-8 if z >= -40 else 1e-8 + 4 * np.finfo(float).eps * z * z
    rec.check(abs(-o - log_ref) <= rel * max(1.0, abs(log_ref)) + rel, "ei-log-value",
              lambda: f"-opt_func = {-o!r} but log E[max(f - y_max, 0)] = {log_ref!r} at z = {z:.6f}", ctx)
    if log_ref > -700:
        rec.check(abs(v - ei_ref) <= rel * ei_ref * max(1.0, abs(log_ref)), "ei-value",
                  lambda: f"expected improvement {v!r} but E[max(f - y_max, 0)] = {ei_ref!r} at z = {z:.6f} (sigma {sig:.3e})", ctx)
    else:
        rec.check(0.0 <= v <= 1e-290, "ei-value", lambda: f"expected improvement {v!r} where the true value underflows (z = {z:.2f})", ctx)
    return z


def run_job(job, rec):
    from inference.gp import acquisition as acqmod
    from inference.gp import GpOptimiser, SquaredExponential, WhiteNoise
    from inference.gp import ExpectedImprovement, UpperConfidenceBound, MaxVariance
    from vmon.contracts import attach

    rng = mk_rng(job["seed"], "C18", job["j"])
    eps = np.finfo(float).eps
    atts = {}
    for cls in (ExpectedImprovement, UpperConfidenceBound, MaxVariance):
        for m in ("__call__", "opt_func", "opt_func_gradient"):
            atts[(cls.__name__, m)] = attach(cls, m)

    # ---------------------------------------------------------------- acquisition values and gradients
    for c in range(job["n_gps"]):
        try:
            gp, info = make_gp(rng)
        except np.linalg.LinAlgError:
            rec.count("skipped_ill_conditioned")
            continue
        d, x, span = info["d"], info["x"], info["span"]
        rec.context = {"case": c, "d": d, "n": info["n"], "mean": info["mean"]}
        if c < 2:
            rec.sample({**rec.context, "y": info["y"], "x_head": x[:2]})
        ei = ExpectedImprovement()
        ei.update_gp(gp)
        kappa = float(rng.choice([0.0, 0.5, 2.0, 5.0]))
        ucb = UpperConfidenceBound(kappa=kappa)
        ucb.update_gp(gp)
        mv = MaxVariance()
        mv.update_gp(gp)
        rec.check(ei.mu_max == info["y"].max(), "incumbent", "mu_max is not the maximum of the data", rec.context)

        qs = []
        for _ in range(8):
            kind = rng.choice(["near", "between", "far", "wide"])
            if kind == "near":
                qs.append(x[rng.integers(info["n"])] + rng.normal(size=d) * info["L"] * 10.0 ** rng.uniform(-3, 0))
            elif kind == "between":
                i, j = rng.integers(info["n"], size=2)
                qs.append(0.5 * (x[i] + x[j]) + rng.normal(size=d) * info["L"] * 0.1)
            elif kind == "far":
                qs.append(x.mean(0) + rng.choice([-1, 1], size=d) * span * rng.uniform(1, 20))
            else:
                qs.append(x.mean(0) + rng.normal(size=d) * span)
        zs = []
        for q in qs:
            z = check_ei_point(rec, ei, gp, q, "random")
            if z is None:
                continue
            zs.append((z, q))
            rec.case(digest(x, info["y"], q), nontrivial=abs(z) > 0.1)
            mu, sig = gp(q)
            # UCB and max-variance against their definitions
            for acq, want, wopt, nm in ((ucb, mu[0] + kappa * sig[0], -(mu[0] + kappa * sig[0]), "ucb"), (mv, sig[0] ** 2, -sig[0] ** 2, "maxvar")):
                v, o = guarded(acq, q), guarded(acq.opt_func, q)
                okv = (not isinstance(v, Raised)) and abs(float(v) - want) <= 1e-12 * (abs(want) + abs(mu[0]))
                oko = (not isinstance(o, Raised)) and abs(float(o) - wopt) <= 1e-12 * (abs(want) + abs(mu[0]))
                rec.check(okv and oko, nm + "-value", lambda: f"{nm}: value {v!r} / objective {o!r}, definition gives {want!r}", rec.context)

            # value-and-gradient forms: same objective, true spatial gradient
            if z > -200:
                h = 1e-3 * info["L"]
                for acq, nm in ((ei, "ei"), (ucb, "ucb"), (mv, "maxvar")):
                    og = guarded(acq.opt_func_gradient, q)
                    if isinstance(og, Raised):
                        rec.violation("raised", f"{nm} opt_func_gradient raised {og!r} (z={z:.2f})", rec.context)
                        continue
                    f0 = float(acq.opt_func(q))
                    val, grad = float(np.ravel(og[0])[0]), np.atleast_1d(np.asarray(og[1], float))
                    rec.check(abs(val - f0) <= 1e-10 * max(1.0, abs(f0)), nm + "-gradient-form-value",
                              lambda: f"{nm}: opt_func_gradient value {val!r} != opt_func {f0!r}", rec.context)
                    gn, stable = num_grad_stable(lambda t: float(acq.opt_func(t)), q, h)
                    if not stable:
                        rec.count("gradient_checks_skipped_unstable_reference")
                        continue
                    rec.count("gradient_checks")
                    gs = max(np.abs(gn).max(), 1e-300)
                    noise = 1e-9 * max(1.0, abs(f0)) / h
                    rec.check(grad.shape == gn.shape and bool(np.all(np.abs(grad - np.asarray(gn)) <= 1e-5 * gs + noise + 2 * gn.spread)), nm + "-gradient",
                              lambda: f"{nm} ({info['mean']} mean, d={d}, z={z:.3f}): opt_func_gradient {grad} != numerical gradient of opt_func {gn}", rec.context)

        # integer-typed query point: same answers as the same values as floats
        xi = np.round(x.mean(0) / info["L"] * 2).astype(int)
        if np.all(np.abs(xi) < 10**6):
            rec.count("integer_query_cases")
            for acq, nm in ((ei, "ei"), (ucb, "ucb"), (mv, "maxvar")):
                a1, a2 = guarded(acq, xi), guarded(acq, xi.astype(float))
                g1, g2 = guarded(acq.opt_func_gradient, xi), guarded(acq.opt_func_gradient, xi.astype(float))
                okd = not any(isinstance(v, Raised) for v in (a1, a2, g1, g2)) and np.allclose(a1, a2, rtol=1e-12, atol=0) and np.allclose(g1[1], g2[1], rtol=1e-12, atol=0) \
                    and np.allclose(g1[0], g2[0], rtol=1e-12, atol=0)
                rec.check(okd, "depends-on-dtype-of-points", lambda: f"{nm}: integer-typed query point gives {a1!r} / {g1!r}, floats give {a2!r} / {g2!r}", rec.context)

        # history: one query array, modified in place between evaluations
        xq = np.array(qs[0], dtype=float)
        for acq in (ei, ucb, mv):
            guarded(acq, xq)
            guarded(acq.opt_func_gradient, xq)
        xq -= 0.08 * info["L"]
        for acq in (ei, ucb, mv):
            guarded(acq, xq)
            guarded(acq.opt_func_gradient, xq)
        xq += 0.29 * info["L"]
        rec.count("in_place_query_updates")
        for acq, nm in ((ei, "ei"), (ucb, "ucb"), (mv, "maxvar")):
            a1, a2 = guarded(acq, xq), guarded(acq, xq.copy())
            g1, g2 = guarded(acq.opt_func_gradient, xq), guarded(acq.opt_func_gradient, xq.copy())
            okq = not any(isinstance(v, Raised) for v in (a1, a2, g1, g2)) and float(a1) == float(a2) and np.array_equal(np.asarray(g1[1]), np.asarray(g2[1])) \
                and float(np.ravel(g1[0])[0]) == float(np.ravel(g2[0])[0])
            rec.check(okq, "stale-after-in-place-update", lambda: f"{nm}: evaluating the same query array after modifying it in place: {a1!r} vs fresh {a2!r}", rec.context)
        check_ei_point(rec, ei, gp, xq, "in-place")

        # continuity across the z = -3 switch: bisect between a point below and a point above
        below = [q for z, q in zs if z < -3.05]
        above = [q for z, q in zs if z > -2.95]
        if below and above:
            a, b = below[0], above[0]

            def zof(t):
                p = a + t * (b - a)
                m, s = gp(p)
                return (m[0] - ei.mu_max) / s[0]

            grid = np.linspace(0, 1, 41)
            zv = np.array([zof(t) for t in grid])
            idx = np.nonzero((zv[:-1] < -3) & (zv[1:] >= -3))[0]
            if idx.size:
                lo, hi = grid[idx[0]], grid[idx[0] + 1]
                for _ in range(60):
                    mid = 0.5 * (lo + hi)
                    if zof(mid) < -3:
                        lo = mid
                    else:
                        hi = mid
                z1 = check_ei_point(rec, ei, gp, a + lo * (b - a), "switch-below")
                z2 = check_ei_point(rec, ei, gp, a + hi * (b - a), "switch-above")
                if z1 is not None and z2 is not None and z1 < -3 <= z2 and abs(z1 - z2) < 1e-6:
                    rec.count("ei:switch_pairs")
                    v1, v2 = float(ei(a + lo * (b - a))), float(ei(a + hi * (b - a)))
                    rec.check(abs(v1 - v2) <= 1e-8 * max(v1, v2) + 10 * abs(z1 - z2) * max(v1, v2), "ei-discontinuous-at-switch",
                              lambda: f"expected improvement jumps from {v1!r} to {v2!r} across z = -3 (z = {z1!r} / {z2!r})", rec.context)

    # ---------------------------------------------------------------- propose / add sequences
    acq_classes = [ExpectedImprovement, UpperConfidenceBound, MaxVariance]
    for s in range(job["n_opt"]):
        d = int(rng.choice([1, 2]))
        opt_name = "diffev" if (s + job["j"]) % 3 == 0 else "bfgs"
        acq_cls = acq_classes[(s + job["j"] // 3) % 3]
        n0 = int(rng.integers(3, 6))
        lo = rng.normal(size=d) * 10.0 ** rng.uniform(-1, 2)
        wid = 10.0 ** rng.uniform(-1, 2, size=d)
        bounds = [(float(a), float(a + w)) for a, w in zip(lo, wid)]
        peak = lo + wid * rng.uniform(0.2, 0.8, size=d)
        if rng.random() < 0.4:
            # the objective keeps rising towards (and beyond) a face of the box: the best proposal sits on the bound itself
            side = rng.choice([-1.0, 1.0], size=d)
            peak = np.where(side > 0, lo + wid * rng.uniform(1.0, 1.6, size=d), lo - wid * rng.uniform(0.0, 0.6, size=d))
            rec.count("optimiser_cases:maximum_on_a_face")
        ysc = 10.0 ** rng.uniform(-1, 1)

        def objective(p):
            p = np.atleast_1d(np.asarray(p, float))
            return float(ysc * np.exp(-0.5 * (((p - peak) / (0.3 * wid)) ** 2).sum()))

        x0 = lo + wid * rng.uniform(0.02, 0.98, size=(n0, d))
        y0 = np.array([objective(p) for p in x0])
        err0 = ysc * 10.0 ** rng.uniform(-2.5, -1.0, size=n0)   # heteroscedastic: an error attached to the wrong datum is visible
        form = str(rng.choice(["2d", "list", "flat1d"])) if d == 1 else str(rng.choice(["2d", "list"]))
        xa = x0.copy() if form == "2d" else [[float(v) for v in r] for r in x0] if form == "list" else x0[:, 0].copy()
        ya = y0.copy() if form != "list" else [float(v) for v in y0]
        ea = err0.copy()
        octx = {"optimiser": opt_name, "acquisition": acq_cls.__name__, "d": d, "n0": n0, "form": form, "bounds": bounds}
        rec.context = octx
        snaps = [snapshot(v) for v in (xa, ya, ea)]
        np.random.seed(int(rng.integers(2**31)))
        okw = {}
        if opt_name == "bfgs" and rng.random() < 0.3:
            okw["n_processes"] = 2    # multi-start searches spread over worker processes
            rec.count("optimisers:multi_process")
            octx["n_processes"] = 2
        opt = guarded(GpOptimiser, xa, ya, bounds=bounds, y_err=ea, acquisition=acq_cls, optimizer=opt_name, **okw)
        if isinstance(opt, Raised):
            rec.violation("raised", f"GpOptimiser construction raised {opt!r}", octx)
            continue
        rec.check([snapshot(v) for v in (xa, ya, ea)] == snaps, "caller-array-modified",
                  "constructing GpOptimiser changed the shape or content of the caller's arrays", octx)
        all_x, all_y, all_err = [r.copy() for r in x0], list(y0), list(err0)
        for it in range(3 if opt_name == "bfgs" else 2):
            prop = guarded(opt.propose_evaluation)
            rec.count("proposals:" + opt_name)
            if isinstance(prop, Raised):
                rec.violation("raised", f"propose_evaluation raised {prop!r}", octx)
                break
            pv = np.atleast_1d(np.asarray(prop, float))
            inside = pv.shape == (d,) and all(b[0] <= v <= b[1] for v, b in zip(pv, bounds))    # exactly: one float beyond a bound is outside
            rec.check(inside, "proposal-outside-bounds", lambda: f"proposed evaluation {prop!r} is outside the search bounds {bounds}", octx)
            if not inside:
                break
            ny = objective(pv)
            nform = str(rng.choice(["as_returned", "array", "list", "row"]))
            nx = prop if nform == "as_returned" else pv.copy() if nform == "array" else [float(v) for v in pv] if nform == "list" else pv.reshape(1, d).copy()
            nyv = ny if rng.random() < 0.5 else np.array([ny])
            ne_val = float(ysc * 10.0 ** rng.uniform(-2.5, -1.0))
            nerr = ne_val if rng.random() < 0.5 else np.array([ne_val])
            all_err.append(ne_val)
            holders = [v for v in (nx, nyv, nerr) if isinstance(v, np.ndarray)]
            hs = [snapshot(v) for v in holders]
            r = guarded(opt.add_evaluation, nx, nyv, new_y_err=nerr)
            if isinstance(r, Raised):
                rec.violation("raised", f"add_evaluation raised {r!r} (new_x form {nform})", octx)
                break
            rec.check([snapshot(v) for v in holders] == hs and [snapshot(v) for v in (xa, ya, ea)] == snaps, "caller-array-modified",
                      lambda: f"add_evaluation changed the shape or content of an array passed by the caller (new_x form {nform})", octx)
            all_x.append(pv)
            all_y.append(ny)
            gx, gy = np.asarray(opt.gp.x, float), np.asarray(opt.gp.y, float)
            ok_data = gx.shape == (len(all_y), d) and np.array_equal(gx, np.array(all_x)) and np.array_equal(gy, np.array(all_y))
            rec.check(ok_data, "evaluation-not-in-model",
                      lambda: f"after add_evaluation the fitted model holds x{gx.shape}, y{gy.shape}; expected all {len(all_y)} evaluations in order", octx)
            rec.check(opt.acquisition.gp is opt.gp and float(opt.acquisition.mu_max) == max(all_y), "incumbent-not-updated",
                      lambda: f"acquisition incumbent {opt.acquisition.mu_max!r} but max of the data is {max(all_y)!r}", octx)
            ge = np.sqrt(np.diag(np.asarray(opt.gp.sig, float)))
            rec.check(ge.shape == (len(all_y),) and bool(np.allclose(ge, np.array(all_err), rtol=1e-12)), "error-not-in-model",
                      "the data errors held by the fitted model are not those supplied", octx)
            rec.count("optimiser_iterations")
            rec.case(digest("opt", x0, y0, opt_name, acq_cls.__name__, it))

    # ---------------------------------------------------------------- proposals that land on a face of the box
    for s_ in range(job.get("n_face", 12)):
        d = int(rng.choice([1, 1, 2]))
        # decimal bounds as a user types them: both ends are decimal literals (the upper one is not 'lower + width' in floating point)
        lo = np.round(rng.normal(size=d) * 10.0 ** rng.uniform(-1, 2), 1)
        wid = np.round(10.0 ** rng.uniform(-0.5, 1.5, size=d), 1) + 0.1
        bounds = [(float(a), float(np.round(a + w, 1))) for a, w in zip(lo, wid)]
        up = np.array([b[1] for b in bounds])
        lo_ = np.array([b[0] for b in bounds])
        x0 = lo_ + (up - lo_) * rng.uniform(0.05, 0.6, size=(4, d))
        slope = rng.uniform(0.5, 2.0, size=d) / (up - lo_)
        y0 = np.array([float(slope @ (p_ - lo_)) for p_ in x0])       # rises towards the upper corner
        acq_cls = acq_classes[s_ % 3]
        fctx = {"face_case": s_, "d": d, "bounds": bounds, "acquisition": acq_cls.__name__}
        rec.context = fctx
        np.random.seed(int(rng.integers(2**31)))
        opt = guarded(GpOptimiser, x0.copy(), y0.copy(), bounds=bounds, y_err=np.full(4, 0.01), acquisition=acq_cls, optimizer="bfgs")
        if isinstance(opt, Raised):
            rec.violation("raised", f"GpOptimiser construction raised {opt!r}", fctx)
            continue
        prop = guarded(opt.propose_evaluation)
        rec.count("proposals:bfgs")
        if isinstance(prop, Raised):
            rec.violation("raised", f"propose_evaluation raised {prop!r}", fctx)
            continue
        pv = np.atleast_1d(np.asarray(prop, float))
        if pv.shape == (d,) and np.any((pv == up) | (pv == lo_)):
            rec.count("proposals:on_a_bound")
        rec.case(digest("face", bounds, acq_cls.__name__), nontrivial=True)
        rec.check(pv.shape == (d,) and bool(np.all((pv >= lo_) & (pv <= up))), "proposal-outside-bounds",
                  lambda: f"proposed evaluation {pv!r} is outside the search bounds {bounds} (by {np.maximum(pv - up, lo_ - pv).max():.3g})", fctx)

    # ---------------------------------------------------------------- two optimisers built from the defaults, used in alternation
    for s in range(job.get("n_pairs", 2)):
        d = 1
        opts, datas, objs = [], [], []
        pctx = {"pair_of_default_optimisers": s}
        rec.context = pctx
        failed = False
        for k in range(2):
            lo = rng.normal(size=d) * 10.0 ** rng.uniform(-1, 1)
            wid = 10.0 ** rng.uniform(-0.5, 1, size=d)
            peak = lo + wid * rng.uniform(0.2, 0.8, size=d)
            ysc = 10.0 ** rng.uniform(-1, 2)
            off = float(rng.normal() * ysc * 3)

            def objective(p, peak=peak, wid=wid, ysc=ysc, off=off):
                p = np.atleast_1d(np.asarray(p, float))
                return float(off + ysc * np.exp(-0.5 * (((p - peak) / (0.3 * wid)) ** 2).sum()))

            x0 = lo + wid * rng.uniform(0.02, 0.98, size=(4, d))
            y0 = [objective(p) for p in x0]
            np.random.seed(int(rng.integers(2**31)))
            o = guarded(GpOptimiser, x0.copy(), np.array(y0), bounds=[(float(a), float(a + w)) for a, w in zip(lo, wid)])
            if isinstance(o, Raised):
                rec.violation("raised", f"GpOptimiser with default arguments raised {o!r}", pctx)
                failed = True
                break
            opts.append(o)
            datas.append(list(y0))
            objs.append(objective)
        if failed:
            continue
        rec.count("default_optimiser_pairs")
        rec.case(digest("pair", s, datas), nontrivial=True)

        def own_state(when):
            for k, (o, ys) in enumerate(zip(opts, datas)):
                ok = o.acquisition.gp is o.gp and float(o.acquisition.mu_max) == max(ys) and np.array_equal(np.asarray(o.gp.y, float), np.array(ys))
                rec.check(ok, "incumbent-not-updated",
                          lambda: f"optimiser {k} of a pair built with default arguments ({when}): its acquisition function refers to "
                                  f"{'its own' if o.acquisition.gp is o.gp else 'ANOTHER'} regressor, incumbent {o.acquisition.mu_max!r}, max of its own data {max(ys)!r}", pctx)
            rec.check(opts[0].acquisition is not opts[1].acquisition, "acquisition-shared-between-optimisers",
                      "two optimisers built with default arguments share one acquisition object", pctx)

        own_state("after construction")
        for k in [int(v) for v in rng.integers(0, 2, size=4)]:
            np.random.seed(int(rng.integers(2**31)))
            prop = guarded(opts[k].propose_evaluation)
            if isinstance(prop, Raised):
                rec.violation("raised", f"propose_evaluation raised {prop!r}", pctx)
                break
            b = opts[k].bounds if hasattr(opts[k], "bounds") else None
            ny = objs[k](prop)
            r = guarded(opts[k].add_evaluation, prop, ny)
            if isinstance(r, Raised):
                rec.violation("raised", f"add_evaluation raised {r!r}", pctx)
                break
            datas[k].append(ny)
            own_state(f"after propose/add on optimiser {k}")

    for (cn, m), a in atts.items():
        rec.count("post:" + m, a.calls)
        a.detach()
