"""C17 - GP linear inversion returns the exact linear-Gaussian posterior.

Monitors: post-conditions on calculate_posterior, calculate_posterior_mean,
marginal_likelihood, marginal_likelihood_gradient of the real GpLinearInverter.
Oracle: the gain form  m + K A^T (A K A^T + S)^-1 (y - A m),  K - K A^T (..)^-1 A K
(an independent algebraic route from the library's (I + K W)^-1 K), MVN evidence,
Richardson gradient.
"""
import numpy as np

from vmon.rec import digest
from vmon.util import mk_rng, guarded, Raised, num_grad
from vmon.ref import gp as R
from vmon import gpgen as G
from vmon.props.c10 import cp_positions

ID = "C17"
RULE = (
    "seeded (model matrix, data, errors, positions, kernel spec, mean, theta): tall / wide / square / rank-deficient matrices "
    "(2-30 data x 2-30 parameters), positions in 1-2 dimensions, kernels SE/RQ/sums with WhiteNoise/change-points, all three "
    "means, error scales 1e-3..1e3 of the signal; judged when both (I+KW) and (AKA^T+S) have condition <= 1e7; "
    "non-trivial = non-square or rank-deficient matrix, or composite kernel, or non-constant mean; distinct = distinct inputs"
)
ASSUMPTIONS = ["tolerance 5000*eps*max(cond(I+KW), cond(AKA^T+S)) times the magnitude of the terms involved; systems with condition above 1e7 are skipped"]
TIMEOUT = {"quick": 300, "thorough": 1800}
REQUIRED = {"post:calculate_posterior": 100, "cases:wide": 20, "cases:tall": 20, "cases:rank_deficient": 10, "judged": 100,
            "gradient_components_checked": 200, "cases:default_prior_pairs": 16}


def jobs(tier, seed):
    n_jobs = 16 if tier == "quick" else 32
    return [{"name": f"inv-{j}", "seed": seed, "j": j, "n_cases": 80 if tier == "quick" else 500} for j in range(n_jobs)]


def run_job(job, rec):
    from inference.gp import GpLinearInverter
    from vmon.contracts import attach

    rng = mk_rng(job["seed"], "C17", job["j"])
    eps = np.finfo(float).eps
    atts = {m: attach(GpLinearInverter, m) for m in
            ("calculate_posterior", "calculate_posterior_mean", "marginal_likelihood", "marginal_likelihood_gradient")}

    for c in range(job["n_cases"]):
        shape = str(rng.choice(["tall", "wide", "square", "rank_deficient"]))
        npar = int(rng.choice([2, 3, 5, 8, 12, 20, 30]))
        if shape == "tall":
            nd = npar + int(rng.integers(1, 12))
        elif shape == "wide":
            nd = max(1, npar - int(rng.integers(1, npar)))
        else:
            nd = npar
        d = int(rng.choice([1, 1, 2]))
        far = bool(rng.random() < 0.15)   # parameter positions far from the origin; only used with kernels without a change-point (decided below)
        pos = G.random_points(rng, npar, d)
        A = rng.normal(size=(nd, npar)) * 10.0 ** rng.uniform(-1, 1)
        if rng.random() < 0.4:  # smoothing-type forward model
            A = np.abs(A) * np.exp(-0.5 * ((np.arange(nd)[:, None] / max(nd - 1, 1) - np.arange(npar)[None, :] / max(npar - 1, 1)) / 0.2) ** 2)
        if shape == "rank_deficient":
            if nd > 1:
                A[-1] = A[0] * rng.uniform(0.5, 2)
            A[:, int(rng.integers(npar))] = 0.0
        spec = G.fix_axes(G.random_spec(rng, allow_noise=True), rng, d)
        if R.has_hn(spec):
            spec = ("SE",)
        y_scale = 10.0 ** rng.uniform(-2, 2)
        far = far and G.count_cp_kernels(spec) == 0
        if far:
            pos = G.random_points(rng, npar, d, far=True)
            rec.count("cases:positions_far_from_origin")
        theta_c = G.random_theta(spec, rng, pos, y_scale)
        mean_name = "Constant" if far else str(rng.choice(G.MEANS + ["UserDecay"]))   # (a trend about a centroid near 1e7 carries the centroid's rounding)
        if mean_name == "UserDecay":
            rec.count("cases:user_written_mean")
        theta_m = G.random_mean_theta(mean_name, rng, pos, y_scale)
        theta = np.concatenate([theta_m, theta_c])
        truth = y_scale * np.sin(3 * (pos - pos.mean(0)) @ (rng.normal(size=d) / np.where(np.ptp(pos, 0) > 0, np.ptp(pos, 0), 1)))
        sig_level = max(np.abs(A @ truth).max(), 1e-300)
        y_err = sig_level * 10.0 ** rng.uniform(-3, 3) * 10.0 ** rng.uniform(-0.5, 0.5, size=nd)
        y = A @ truth + y_err * rng.normal(size=nd)
        form = str(rng.choice(["float", "float", "float", "int", "f32"]))  # (lists are not accepted: the constructor documents and validates ndarrays)
        if form == "int":
            # integer-typed data, uncertainties and forward model (counts and a 0/1.. geometry matrix): the same numbers as floats
            A = np.rint(A / max(np.abs(A).max(), 1e-300) * 9)
            y = np.rint(y / sig_level * 50)
            y_err = np.maximum(np.rint(y_err / sig_level * 50), 1.0)
        elif form == "f32":
            y = y.astype(np.float32).astype(float)
        desc = G.describe(spec)
        rec.context = {"case": c, "shape": shape, "n_data": nd, "n_params": npar, "d": d, "spec": desc, "mean": mean_name, "input_form": form}
        rec.count("forms:" + form)
        nontrivial = shape != "square" or spec[0] in ("SUM", "CP") or mean_name != "Constant"
        rec.case(digest(A, y, y_err, pos, desc, theta), nontrivial=nontrivial)
        rec.count("cases:" + shape)
        if nd == 1:
            rec.count("cases:single_datum")
        if c < 2:
            rec.sample({**rec.context, "theta": theta, "y_err_head": y_err[:3]})

        if form == "int":
            ya, ea, Aa = y.astype(np.int64), y_err.astype(np.int64), A.astype(np.int64)
            if rng.random() < 0.6:
                # the narrowest integer types that hold the values
                def narrow(a, kinds):
                    for dt in kinds:
                        ii = np.iinfo(dt)
                        if a.min() >= ii.min and a.max() <= ii.max:
                            return a.astype(dt)
                    return a

                ya, ea, Aa = narrow(ya, [np.int8, np.int16, np.int32]), narrow(ea, [np.uint8, np.uint16, np.int32]), narrow(Aa, [np.int8, np.int16])
                rec.count(f"forms:int:{ya.dtype}/{ea.dtype}/{Aa.dtype}")
        elif form == "f32":
            ya, ea, Aa = y.astype(np.float32), y_err.copy(), A.copy()
        else:
            ya, ea, Aa = y.copy(), y_err.copy(), A.copy()
        inv = guarded(GpLinearInverter, y=ya, y_err=ea, model_matrix=Aa, parameter_spatial_positions=pos,
                      prior_covariance_function=G.build_repo_kernel(spec), prior_mean_function=G.build_repo_mean(mean_name))
        if isinstance(inv, Raised):
            rec.violation("raised", f"constructor raised {inv!r}", rec.context)
            continue

        K0 = R.data_cov(spec, pos, theta_c)
        jit = np.clip(np.diag(inv.cov.build_covariance(theta_c)) - np.diag(K0), 0, None)
        kd = np.diag(R.kernel(spec, pos, pos, theta_c, npar))
        if not rec.check(bool(np.all(jit <= 1e-9 * kd + 1e-11 * kd.max())), "builder-diagonal", "jitter out of documented range", rec.context):
            continue
        K = K0 + np.diag(jit)
        S = np.diag(y_err**2)
        m = R.mean(mean_name, pos, theta_m, pos)
        J = A @ K @ A.T + S
        W = A.T @ np.diag(y_err**-2.0) @ A
        cond = max(np.linalg.cond(J), np.linalg.cond(np.eye(npar) + K @ W))
        if not np.isfinite(cond) or cond > 1e7:
            rec.count("skipped_ill_conditioned")
            continue
        rec.count("judged")
        fac = 5000 * eps * cond
        resid = y - A @ m
        sol = np.linalg.solve(J, resid)
        KAt = K @ A.T
        ref_mean = m + KAt @ sol
        ref_cov = K - KAt @ np.linalg.solve(J, KAt.T)
        tol_mean = fac * (np.abs(m).max() + (np.abs(KAt) @ np.abs(sol)).max() + 1e-300)
        tol_cov = fac * np.abs(K).max()
        # the full path forms the mean as (posterior covariance) @ u: an entry-wise error tol_cov of the covariance is multiplied by |u|_1
        u_vec = A.T @ ((y - A @ m) / y_err**2)
        tol_mean_full = tol_mean + tol_cov * float(np.abs(u_vec).sum())

        out = guarded(inv.calculate_posterior, theta)
        if isinstance(out, Raised):
            rec.violation("raised", f"calculate_posterior raised {out!r}", rec.context)
            continue
        pm, pc = np.asarray(out[0], float), np.asarray(out[1], float)
        if not rec.check(pm.shape == (npar,) and pc.shape == (npar, npar), "posterior-shape", f"shapes {pm.shape}, {pc.shape}", rec.context):
            continue
        rec.check(bool(np.abs(pm - ref_mean).max() <= tol_mean_full), "posterior-mean",
                  lambda: f"{desc}/{mean_name} [{shape} {nd}x{npar}]: posterior mean differs from the closed form by {np.abs(pm - ref_mean).max():.3e} (tol {tol_mean_full:.2e}, cond {cond:.1e})", rec.context)
        rec.check(bool(np.abs(pc - ref_cov).max() <= tol_cov), "posterior-covariance",
                  lambda: f"{desc} [{shape} {nd}x{npar}]: posterior covariance differs from the closed form by {np.abs(pc - ref_cov).max():.3e} (tol {tol_cov:.2e}, cond {cond:.1e})", rec.context)
        rec.check(bool(np.abs(pc - pc.T).max() <= tol_cov), "posterior-asymmetric",
                  lambda: f"posterior covariance asymmetric by {np.abs(pc - pc.T).max():.3e}", rec.context)
        sym = 0.5 * (pc + pc.T)
        lam = np.linalg.eigvalsh(sym)
        rec.check(lam.min() >= -tol_cov * npar, "posterior-not-psd", lambda: f"posterior covariance eigenvalue {lam.min():.3e}", rec.context)
        lam2 = np.linalg.eigvalsh(K - sym)
        rec.check(lam2.min() >= -tol_cov * npar, "posterior-larger-than-prior",
                  lambda: f"prior minus posterior covariance has eigenvalue {lam2.min():.3e}", rec.context)
        mo = guarded(inv.calculate_posterior_mean, theta)
        rec.check((not isinstance(mo, Raised)) and np.shape(mo) == (npar,) and bool(np.abs(np.asarray(mo) - pm).max() <= tol_mean_full),
                  "mean-only-differs", lambda: f"calculate_posterior_mean differs from the full path: {mo!r}", rec.context)
        # the mean-only path solves for the mean directly: judged against the closed form at the tighter tolerance
        rec.check((not isinstance(mo, Raised)) and np.shape(mo) == (npar,) and bool(np.abs(np.asarray(mo) - ref_mean).max() <= tol_mean + 1e-3 * tol_mean_full),
                  "posterior-mean", lambda: f"{desc}/{mean_name} [{shape} {nd}x{npar}]: calculate_posterior_mean differs from the closed form by "
                                            f"{np.abs(np.asarray(mo) - ref_mean).max():.3e} (tol {tol_mean:.2e}, cond {cond:.1e})", rec.context)

        # ---- history: the same theta array modified in place between calls
        if c % 2 == 0:
            th2 = theta.copy()
            guarded(inv.calculate_posterior, th2)
            guarded(inv.marginal_likelihood, th2)
            cpi = {a for a, _ in cp_positions(spec, npar, d, pos)} | {a + 1 for a, _ in cp_positions(spec, npar, d, pos)}
            free = [i for i in range(theta_c.size) if i not in cpi]
            for upd in range(2):   # two successive in-place updates: a cache keyed on the array object is stale on the second
                for k0 in rng.permutation(free)[:2]:
                    th2[theta_m.size + int(k0)] += float(rng.uniform(0.3, 0.7)) * rng.choice([-1, 1])
                th2[0] += 0.1 * y_scale
                K2 = R.data_cov(spec, pos, th2[theta_m.size:])
                K2 = K2 + np.diag(np.clip(np.diag(inv.cov.build_covariance(th2[theta_m.size:].copy())) - np.diag(K2), 0, None))
                m2 = R.mean(mean_name, pos, th2[: theta_m.size], pos)
                J2 = A @ K2 @ A.T + S
                c2 = max(np.linalg.cond(J2), np.linalg.cond(np.eye(npar) + K2 @ W))
                if c2 < 1e7:
                    KAt2 = K2 @ A.T
                    ref_m2 = m2 + KAt2 @ np.linalg.solve(J2, y - A @ m2)
                    ref_c2 = K2 - KAt2 @ np.linalg.solve(J2, KAt2.T)
                    ev2 = R.mvn_logpdf_no_const(y, A @ m2, J2)
                    o2 = guarded(inv.calculate_posterior, th2)
                    mo2 = guarded(inv.calculate_posterior_mean, th2)
                    e2 = guarded(inv.marginal_likelihood, th2)
                    rec.count("in_place_theta_updates")
                    f2 = 5000 * eps * c2
                    tol_m2 = f2 * (np.abs(m2).max() + (np.abs(KAt2) @ np.abs(np.linalg.solve(J2, y - A @ m2))).max() + 1e-300)
                    es2 = abs((y - A @ m2) @ np.linalg.solve(J2, y - A @ m2)) + abs(np.linalg.slogdet(J2)[1]) + nd
                    # (the full path forms the mean as (posterior covariance) @ u: the covariance's entry-wise tolerance is multiplied by |u|_1, as above)
                    tol_m2_full = tol_m2 + f2 * np.abs(K2).max() * float(np.abs(A.T @ ((y - A @ m2) / y_err**2)).sum())
                    ok2 = not any(isinstance(v, Raised) for v in (o2, mo2, e2)) and bool(np.abs(np.asarray(o2[0]) - ref_m2).max() <= tol_m2_full) \
                        and bool(np.abs(np.asarray(mo2) - ref_m2).max() <= tol_m2) and bool(np.abs(np.asarray(o2[1]) - ref_c2).max() <= f2 * np.abs(K2).max()) \
                        and abs(float(e2) - ev2) <= f2 * es2
                    rec.check(ok2, "stale-after-in-place-update",
                              lambda: f"{desc}: after covariance hyper-parameters were changed in place in the same theta array, the posterior / evidence are not those of the new values", rec.context)

        # ---- evidence and its gradient
        ref_ev = R.mvn_logpdf_no_const(y, A @ m, J)
        escale = abs(resid @ sol) + abs(np.linalg.slogdet(J)[1]) + nd
        ev = guarded(inv.marginal_likelihood, theta)
        if isinstance(ev, Raised):
            rec.violation("raised", f"marginal_likelihood raised {ev!r}", rec.context)
            continue
        rec.check(abs(float(ev) - ref_ev) <= fac * escale, "evidence-value",
                  lambda: f"{desc} [{shape}]: evidence {float(ev)!r} != MVN log-density {ref_ev!r}", rec.context)
        eg = guarded(inv.marginal_likelihood_gradient, theta)
        if isinstance(eg, Raised):
            rec.violation("raised", f"marginal_likelihood_gradient raised {eg!r}", rec.context)
            continue
        rec.check(abs(float(eg[0]) - float(ev)) <= fac * escale, "evidence-gradient-variant-value",
                  lambda: f"value from marginal_likelihood_gradient {float(eg[0])!r} != marginal_likelihood {float(ev)!r}", rec.context)
        h = np.full(theta.size, 1e-3)
        h[: theta_m.size] = 1e-3 * np.maximum(np.abs(theta_m), 1e-3 * y_scale)
        for p0, width in cp_positions(spec, npar, d, pos):
            h[theta_m.size + p0] = 1e-4 * width
            h[theta_m.size + p0 + 1] = 1e-4 * width
        gn = num_grad(lambda t: float(inv.marginal_likelihood(t)), theta, h)
        g = np.asarray(eg[1], float)
        gtol = 2e-6 * max(np.abs(gn).max(), np.abs(g).max() if g.shape == gn.shape else 0) + 20 * fac * escale / h
        rec.count("gradient_components_checked", theta.size)
        rec.check(g.shape == gn.shape and bool(np.all(np.abs(g - gn) <= gtol)), "evidence-gradient",
                  lambda: f"{desc}/{mean_name}: evidence gradient {g} != numerical {gn}", rec.context)
        # the same call again (and again): nothing an earlier call left behind may change the answer
        for rep in range(2):
            eg2 = guarded(inv.marginal_likelihood_gradient, theta)
            ev2_ = guarded(inv.marginal_likelihood, theta)
            po2_ = guarded(inv.calculate_posterior, theta)
            rec.count("repeated_calls")
            okr = not any(isinstance(v, Raised) for v in (eg2, ev2_, po2_)) and float(eg2[0]) == float(eg[0]) and np.array_equal(np.asarray(eg2[1], float), g) \
                and float(ev2_) == float(ev) and np.array_equal(np.asarray(po2_[0], float), pm) and np.array_equal(np.asarray(po2_[1], float), pc)
            rec.check(okr, "repeated-call-differs",
                      lambda: f"{desc} [{shape} {nd}x{npar}]: call {rep + 2} of marginal_likelihood_gradient / marginal_likelihood / calculate_posterior at the same hyper-parameters "
                              f"differs from the first ({eg2!r} vs {eg!r})", rec.context)

    # ---- two inverters relying on the default prior classes, built one after the other; the first is used afterwards
    for c in range(max(2, job["n_cases"] // 6)):
        sizes = [int(rng.choice([4, 6, 9])), int(rng.choice([4, 6, 9, 12]))]
        invs, data = [], []
        for npar in sizes:
            pos = G.random_points(rng, npar, 1)
            A = rng.normal(size=(npar + 2, npar))
            y = rng.normal(size=npar + 2)
            ye = 10.0 ** rng.uniform(-1, 0, size=npar + 2)
            invs.append(guarded(GpLinearInverter, y=y, y_err=ye, model_matrix=A, parameter_spatial_positions=pos))
            data.append((pos, A, y, ye))
        dctx = {"default_prior_pair": c, "sizes": sizes}
        rec.context = dctx
        rec.count("cases:default_prior_pairs")
        if any(isinstance(v, Raised) for v in invs):
            rec.violation("raised", f"constructing inverters with the default prior raised {invs}", dctx)
            continue
        for which in (0, 1):
            pos, A, y, ye = data[which]
            npar = pos.shape[0]
            th = np.array([rng.normal(), rng.uniform(-0.5, 0.5), np.log(np.ptp(pos)) + rng.uniform(-1.5, 0)])
            out = guarded(invs[which].calculate_posterior, th)
            if isinstance(out, Raised):
                rec.violation("raised", f"calculate_posterior on inverter {which} of a default-prior pair raised {out!r}", dctx)
                continue
            K = R.data_cov(("SE",), pos, th[1:]) + np.eye(npar) * np.exp(2 * th[1]) * 1e-12
            J = A @ K @ A.T + np.diag(ye**2)
            m = np.full(npar, th[0])
            ref_mean = m + K @ A.T @ np.linalg.solve(J, y - A @ m)
            cnd = np.linalg.cond(J)
            rec.check(np.shape(out[0]) == (npar,) and bool(np.abs(np.asarray(out[0]) - ref_mean).max() <= 1e-6 * (np.abs(ref_mean).max() + 1) * max(1.0, cnd * 1e-8)),
                      "objects-share-prior-state",
                      lambda: f"inverter {which} of two built with the default prior returns a posterior mean that differs from the closed form by "
                              f"{np.abs(np.asarray(out[0]) - ref_mean).max() if np.shape(out[0]) == (npar,) else np.shape(out[0])}", dctx)

    for mname, a in atts.items():
        rec.count("post:" + mname, a.calls)
        a.detach()
