"""C15 - advancing a sampler adds exactly the requested number of samples.

Monitors:
 * state invariant after every advance(m) / take_step of a random call program
   (stored samples, stored log-probabilities and the reported length all grow by m);
 * twin comparison: ChainPool.advance vs deep copies advanced serially from the same
   generator states (bit-identical), with chains of unequal cost per step;
 * virtual-clock monitor of run_for: the `time` name used by inference.mcmc.base is
   replaced by a logical clock advanced by the posterior (step cost) and by a tiny tick
   per time() call.  Verdicts are taken on that clock, never on wall-clock time.
"""
import copy

import numpy as np

from vmon.rec import digest
from vmon.util import mk_rng, guarded, Raised
from vmon import mc

ID = "C15"
RULE = (
    "seeded call programs (advance(m) with m in {0,1,7,99,100,101,250,random} and take_step runs) on Gibbs, Metropolis, PCA, "
    "Hamiltonian and ensemble samplers in 1-4 dimensions with/without bounds; pools of 1-6 mixed chains (display on/off, "
    "unequal step cost) vs serial twins; run_for on a virtual clock with step costs 1e-6 s .. 600 s and budgets 1 s .. 3 days; "
    "ParallelTempering.run_for on a virtual clock (swap_interval 1-400); a random-walk sampler written by the user on the MarkovChain base class; "
    "non-trivial = m not a multiple of 100 or a multi-call program; distinct = distinct (sampler, program)"
)
ASSUMPTIONS = [
    "run_for is judged on a virtual clock: the posterior advances it by the step cost, every time() call by 1e-7 s",
    "pool workers are forked; per-chain generator states are copied by the harness before the pool runs",
]
TIMEOUT = {"quick": 400, "thorough": 2400}
REQUIRED = {"advance_calls": 150, "advance:m=0": 20, "advance:not_multiple_of_100": 80, "pool_runs": 16, "pool_chains_compared": 40,
            "run_for_runs": 60, "run_for:slow_steps": 15, "advance:interrupted": 10, "tempering_advances": 12,
            "tempering_timed_runs": 8, "post:advance_user_written_chain": 100}


def jobs(tier, seed):
    n_jobs = 16 if tier == "quick" else 32
    out = [{"name": f"adv-{j}", "seed": seed, "j": j, "n_programs": 10 if tier == "quick" else 70,
             "n_pools": 2 if tier == "quick" else 8, "n_timed": 8 if tier == "quick" else 50, "n_pt": 1 if tier == "quick" else 3} for j in range(n_jobs)]
    if tier == "thorough":
        out.append({"name": "repo-tests", "seed": seed, "j": 999, "mode": "repo_tests"})
    return out


def lengths(ch, kind):
    s, p = mc.full_readout(ch)
    return int(ch.chain_length), s.shape[0] if s.ndim == 2 else -1, p.shape[0]


class IdleSpin(Exception):
    pass


class VirtualClock:
    def __init__(self, tick=1e-7, idle_limit=20000):
        self.now = 1.0e9
        self.tick = tick
        self.calls_since_work = 0
        self.idle_limit = idle_limit
        self.last_work_done = None

    def time(self):
        self.now += self.tick
        self.calls_since_work += 1
        if self.calls_since_work > self.idle_limit:
            raise IdleSpin()
        return self.now

    def work(self, cost):
        self.now += cost
        self.calls_since_work = 0
        self.last_work_done = self.now


class CostedTarget:
    def __init__(self, clock, cost, d):
        self.clock, self.cost, self.d = clock, cost, d
        self.calls = 0

    def __call__(self, t):
        self.calls += 1
        self.clock.work(self.cost)
        return float(-0.5 * np.sum(np.asarray(t, float) ** 2))

    def grad(self, t):
        return -np.asarray(t, float)



def user_chain_class():
    """A sampler written by a user on the library's MarkovChain base class, providing exactly what that class declares
    (chain_length, n_parameters, ProgressPrinter, the three read-outs) plus take_step: advance / run_for are inherited."""
    from inference.mcmc.base import MarkovChain
    from inference.mcmc.utilities import ChainProgressPrinter

    class UserRandomWalk(MarkovChain):
        def __init__(self, posterior, start, width, seed, quiet=True):
            self.posterior = posterior
            self.walk_rng = np.random.default_rng(seed)
            self.width = float(width)
            self.points = [np.array(start, dtype=float)]
            self.logp = [float(posterior(self.points[0]))]
            self.chain_length = 1
            self.n_parameters = self.points[0].size
            self.ProgressPrinter = ChainProgressPrinter(display=not quiet, leading_msg="UserRandomWalk:")

        def take_step(self):
            cur, lp = self.points[-1], self.logp[-1]
            prop = cur + self.width * self.walk_rng.normal(size=cur.size)
            lq = float(self.posterior(prop))
            if np.log(self.walk_rng.random()) < lq - lp:
                cur, lp = prop, lq
            self.points.append(cur)
            self.logp.append(lp)
            self.chain_length += 1

        def get_parameter(self, index, burn=1, thin=1):
            return np.array([p[index] for p in self.points[burn::thin]])

        def get_probabilities(self, burn=1, thin=1):
            return np.array(self.logp[burn::thin])

        def get_sample(self, burn=1, thin=1):
            return np.array(self.points[burn::thin])

    return UserRandomWalk


def user_chain_programs(job, rec, rng):
    import contextlib
    import io

    cls = user_chain_class()
    for c in range(job.get("n_user", 6)):
        d = int(rng.choice([1, 2, 3]))
        quiet = bool(rng.random() < 0.7)
        ch = cls(mc.GaussTarget(np.zeros(d), np.eye(d)), rng.normal(size=d), 0.8, int(rng.integers(2**31)), quiet=quiet)
        prog = [int(rng.choice([0, 1, 7, 99, 100, 101, 250, int(rng.integers(0, 130))])) for _ in range(int(rng.integers(1, 5)))]
        ctx = {"user_written_chain": c, "d": d, "quiet": quiet, "program": prog}
        rec.context = ctx
        rec.case(digest("user-chain", d, prog), nontrivial=True)
        cur = 1
        for m in prog:
            with contextlib.redirect_stdout(io.StringIO()):
                r = guarded(ch.advance, m)
            rec.count("post:advance_user_written_chain")
            cur += m
            got = (ch.chain_length, len(ch.get_sample(burn=0)), len(ch.get_probabilities(burn=0)))
            if not rec.check((not isinstance(r, Raised)) and got == (cur, cur, cur), "wrong-number-of-samples",
                             lambda: f"a chain written on the MarkovChain base class: advance({m}) {'raised ' + repr(r) if isinstance(r, Raised) else ''} "
                                     f"left chain_length / samples / log-probabilities = {got}, expected {cur}", ctx):
                break


def tempering_timed_runs(job, rec, rng):
    """ParallelTempering.run_for on a virtual clock: the parent's clock (the `time` name of inference.mcmc.parallel) is advanced by
    (steps x cost per step) every time a cycle's steps have been taken; verdicts are taken on that clock."""
    import contextlib
    import io
    import inference.mcmc.parallel as par
    from inference.mcmc import ParallelTempering, GibbsChain

    real_time = par.time
    for c in range(job.get("n_pt_timed", 1)):
        n = int(rng.choice([2, 3]))
        d = 1
        si = int(rng.choice([1, 10, 100, 400]))
        cost = float(10.0 ** rng.uniform(-3.3, -1.5))            # virtual seconds per step
        n_steps = int(rng.integers(1500, 5000))                    # steps that fit into the budget
        budget = cost * n_steps
        tctx = {"tempering_timed_run": c, "chains": n, "swap_interval": si, "step_cost_s": cost, "budget_s": budget}
        rec.context = tctx
        chains = [GibbsChain(posterior=mc.GaussTarget(np.zeros(d), np.eye(d)), start=np.zeros(d) + 0.1 * i, widths=np.ones(d), temperature=float(T),
                             display_progress=False) for i, T in enumerate(np.cumprod([1.0] + [2.0] * (n - 1)))]
        pt = guarded(ParallelTempering, chains)
        if isinstance(pt, Raised):
            rec.violation("raised", f"ParallelTempering construction raised {pt!r}", tctx)
            continue
        clock = VirtualClock()
        cycles = []
        real_take = pt.take_steps

        def take(k, real_take=real_take, clock=clock, cycles=cycles, cost=cost):
            cycles.append(clock.now)       # (start of a cycle on the virtual clock)
            real_take(k)
            clock.work(k * cost)

        try:
            pt.take_steps = take
            par.time = clock.time
            t0 = clock.now
            with contextlib.redirect_stdout(io.StringIO()):
                r = guarded(pt.run_for, minutes=budget / 60.0, swap_interval=si)
            par.time = real_time
            elapsed = clock.now - t0
            rec.count("tempering_timed_runs")
            if isinstance(r, Raised):
                rec.violation("raised", f"ParallelTempering.run_for raised {r!r}", tctx)
                continue
            cyc = si * cost
            out = pt.return_chains()
            grown = [int(ch.chain_length) - 1 for ch in out]
            rec.case(digest("pt-timed", n, si, cost, budget), nontrivial=True)
            rec.check(len(set(grown)) == 1 and grown[0] == len(cycles) * si, "timed-run-unequal-steps",
                      lambda: f"chains grew by {grown} in {len(cycles)} cycles of {si} steps", tctx)
            rec.check(elapsed >= budget, "timed-run-stopped-early", lambda: f"run_for returned after {elapsed:.6g} s of a {budget:.6g} s budget", tctx)
            # cycles come in batches sized to last about two seconds (documented in the source: a print-out roughly every 2 seconds): the run may
            # finish the batch in progress when the budget expires, nothing more (calibration cycle + one batch of max(2 s, one cycle))
            late = [t for t in cycles if t >= t0 + budget]
            allowed = 2.5 + 2 * cyc
            rec.check(len(late) * cyc <= allowed, "timed-run-overshoots",
                      lambda: f"ParallelTempering.run_for(swap_interval={si}): {len(late)} cycles lasting {len(late) * cyc:.6g} s were started after the {budget:.6g} s budget "
                              f"had expired (one cycle lasts {cyc:.3g} s; returned after {elapsed:.6g} s)", tctx)
        finally:
            par.time = real_time
            try:
                pt.shutdown()
            except Exception:
                pass
            for p_ in pt.processes:
                if p_.is_alive():
                    p_.terminate()


def run_job(job, rec):
    if job.get("mode") == "repo_tests":
        from vmon import repotests

        return repotests.run(rec, ID)
    import inference.mcmc.base as base
    import inference.mcmc.utilities as util
    from inference.mcmc import ChainPool

    rng = mk_rng(job["seed"], "C15", job["j"])

    # ------------------------------------------------ advance / take_step programs
    for c in range(job["n_programs"]):
        kind = mc.KINDS[(c + job["j"]) % len(mc.KINDS)]
        d = int(rng.choice([1, 2, 3, 4]))
        target = mc.Interruptible(mc.GaussTarget(np.zeros(d), np.eye(d)))
        bounds = (np.full(d, -4.0), np.full(d, 4.0)) if (kind in ("pca", "hmc", "ensemble") and rng.random() < 0.4) else None
        default_w = bool(kind in ("gibbs", "metropolis", "pca") and rng.random() < 0.3)    # proposal widths left to the library (start of either sign)
        if default_w:
            rec.count("cases:default_proposal_widths")
        ch = guarded(mc.make_sampler, kind, target, rng.normal(size=d) * 0.3, rng, grad=target.grad, bounds=bounds,
                     display_progress=bool(rng.random() < 0.15), seed=int(rng.integers(2**31)), widths="default" if default_w else None)
        ctx = {"program": c, "kind": kind, "d": d, "bounded": bounds is not None, "default_widths": default_w}
        rec.context = ctx
        if isinstance(ch, Raised):
            rec.violation("raised", f"{kind} construction raised {ch!r}", ctx)
            continue
        per = ch.n_walkers if kind == "ensemble" else 1
        prog = []
        n_calls = int(rng.integers(1, 5))
        for _ in range(n_calls):
            if kind != "ensemble" and rng.random() < 0.25:
                prog.append(("take_step", int(rng.integers(1, 6))))
            else:
                big = [99, 100, 101, 250] if kind != "ensemble" else [12, 25]
                m = int(rng.choice([0, 0, 1, 7] + big + [int(rng.integers(0, 130 if kind != "ensemble" else 15))]))
                prog.append(("advance", m))
        rec.case(digest(kind, d, prog), nontrivial=len(prog) > 1 or any(m % 100 for _, m in prog))
        if c < 2:
            rec.sample({**ctx, "program": prog})
        L0 = guarded(lengths, ch, kind) if not (kind == "ensemble") else (0, 0, 0)
        if isinstance(L0, Raised):
            rec.violation("raised", f"{kind}: read-out of a fresh sampler raised {L0!r}", ctx)
            continue
        cur = L0[0]
        for op, m in prog:
            pctx = {**ctx, "call": f"{op}({m})", "program": prog}
            if op == "advance":
                r = guarded(ch.advance, m)
                rec.count("advance_calls")
                if m == 0:
                    rec.count("advance:m=0")
                if m % 100:
                    rec.count("advance:not_multiple_of_100")
            else:
                r = guarded(lambda: [ch.take_step() for _ in range(m)])
                rec.count("take_step_runs")
            if isinstance(r, Raised):
                rec.violation("raised", f"{kind}: {op}({m}) raised {r!r}", pctx)
                break
            cur += m * per
            if kind == "ensemble" and ch.sample is None:
                got = (int(ch.chain_length), 0, 0)
            else:
                got = guarded(lengths, ch, kind)
            if isinstance(got, Raised):
                rec.violation("raised", f"{kind}: read-out after {op}({m}) raised {got!r}", pctx)
                break
            rec.check(got == (cur, cur, cur), "wrong-number-of-samples",
                      lambda: f"{kind}: after {op}({m}) chain_length / stored samples / stored log-probabilities = {got}, expected {cur} each", pctx)
            if got != (cur, cur, cur):
                break
        else:
            # an advance interrupted from inside the posterior (Ctrl-C): whatever was completed is stored completely - the reported length, the
            # stored samples and the stored log-probabilities still agree, and a later advance(m) adds exactly m
            if rng.random() < 0.35 and not (kind == "ensemble" and ch.sample is None):
                target.arm(int(rng.integers(1, 50)))
                try:
                    ch.advance(6 if kind == "ensemble" else 40)
                except mc.InjectedInterrupt:
                    rec.count("advance:interrupted")
                except Exception as exc:  # noqa: BLE001
                    rec.violation("raised", f"{kind}: advance raised {exc!r}", ctx)
                    continue
                finally:
                    target.disarm()
                got = guarded(lengths, ch, kind)
                ok_i = (not isinstance(got, Raised)) and got[0] == got[1] == got[2] and got[0] >= cur
                rec.check(ok_i, "wrong-number-of-samples",
                          lambda: f"{kind}: after an interrupted advance chain_length / stored samples / stored log-probabilities = {got!r} (there were {cur} before it)", ctx)
                if ok_i:
                    m2 = int(rng.integers(1, 8))
                    r2 = guarded(ch.advance, m2)
                    got2 = guarded(lengths, ch, kind)
                    want2 = got[0] + m2 * per
                    rec.check((not isinstance(r2, Raised)) and (not isinstance(got2, Raised)) and got2 == (want2, want2, want2), "wrong-number-of-samples",
                              lambda: f"{kind}: advance({m2}) after an interrupted advance gives chain_length / samples / log-probabilities = {got2!r}, expected {want2}", ctx)

    user_chain_programs(job, rec, mk_rng(job["seed"], "C15-user", job["j"]))
    tempering_timed_runs(job, rec, mk_rng(job["seed"], "C15-pt-timed", job["j"]))

    # ------------------------------------------------ chains advanced together under parallel tempering: every chain by the requested number of steps
    from vmon.props import c08
    from vmon.rec import OnlyKeys

    for c in range(job.get("n_pt", 1)):
        sp = c08.make_spec(mk_rng(job["seed"], "C15-pt", job["j"], c), job["j"], c)
        n_ = sp["n"]
        si = int(rng.choice([1, 2, 5]))
        nn = [50 * si, 50 * si + int(rng.integers(1, si + 1)), int(rng.integers(0, 40)), 100 * si + 1][int(rng.integers(4))]
        sp["program"] = [("advance", (int(nn), si)), ("advance", (int(rng.integers(0, 12)), int(rng.choice([1, 3, 10]))))]
        pctx = {"tempering": c, "chains": n_, "program": sp["program"]}
        rec.context = pctx
        rec.count("tempering_advances")
        view = OnlyKeys(rec, {"advance-wrong-number-of-steps", "raised", "returned-chain-incomplete"}, prefix="pt:")
        c08.execute(sp, {"name": "unperturbed"}, view, monitor=True, ctx=pctx)

    # ------------------------------------------------ pool vs serial twins
    for c in range(job["n_pools"]):
        size = int(rng.choice([1, 2, 3, 4, 6]))
        display = bool(rng.random() < 0.3)
        chains = []
        kinds = []
        for i in range(size):
            kind = str(rng.choice(["gibbs", "pca", "hmc", "metropolis"]))
            d = int(rng.choice([1, 2, 3]))
            # the first chains are the slowest: completion order differs from list order
            delay = mc.SleepPlan(1, i, base=(0.004 * (size - i) if (c % 2 == 0 and size > 1) else 0.0))
            tgt = mc.GaussTarget(np.zeros(d), np.eye(d), delay=delay if delay.base > 0 else None)
            im = None
            if kind == "hmc" and rng.random() < 0.6:
                # every accepted mass specification: per-parameter variances or a dense matrix
                Bm = rng.normal(size=(d, d))
                im = (Bm @ Bm.T / d + 0.5 * np.eye(d)) if (d >= 2 and rng.random() < 0.7) else rng.uniform(0.5, 2.0, size=d)
                kind = "hmc/matrix-mass" if np.ndim(im) == 2 else "hmc/vector-mass"
            ch = mc.make_sampler(kind.split("/")[0], tgt, rng.normal(size=d) * 0.3, rng, grad=tgt.grad, display_progress=display, seed=int(rng.integers(2**31)), inverse_mass=im)
            chains.append(ch)
            kinds.append(kind)
            rec.count("pool_chain_kinds:" + kind)
        twins = [copy.deepcopy(ch) for ch in chains]
        n_adv = [int(v) for v in rng.choice([0, 1, 7, 23, 40], size=int(rng.integers(1, 3)))]
        pctx = {"pool": c, "size": size, "kinds": kinds, "display_progress": display, "advances": n_adv}
        rec.context = pctx
        rec.case(digest("pool", kinds, n_adv, display), nontrivial=size > 1)
        pool = guarded(ChainPool, chains)
        if isinstance(pool, Raised):
            rec.violation("raised", f"ChainPool construction raised {pool!r}", pctx)
            continue
        try:
            failed = False
            for n in n_adv:
                r = guarded(pool.advance, n)
                if isinstance(r, Raised):
                    rec.violation("raised", f"ChainPool.advance({n}) raised {r!r}", pctx)
                    failed = True
                    break
                for t in twins:
                    t.advance(n)
            rec.count("pool_runs")
            if failed:
                continue
            out = pool.chains
            if not rec.check(len(out) == size, "pool-size", f"pool holds {len(out)} chains, {size} were given", pctx):
                continue
            for i, (a, b) in enumerate(zip(out, twins)):
                sa, pa = mc.full_readout(a)
                sb, pb = mc.full_readout(b)
                rec.count("pool_chains_compared")
                same = type(a) is type(b) and sa.shape == sb.shape and np.array_equal(sa, sb) and np.array_equal(pa, pb) and int(a.chain_length) == int(b.chain_length)
                rec.check(same, "pool-differs-from-serial",
                          lambda: f"chain {i} ({kinds[i]}) of the pool differs from the same chain advanced serially: lengths {a.chain_length} vs {b.chain_length}, "
                                  f"type {type(a).__name__} vs {type(b).__name__}", pctx)
        finally:
            try:
                pool.pool.terminate()
                pool.pool.join()
            except Exception:
                pass

    # ------------------------------------------------ timed runs on a virtual clock
    real_time_base, real_time_util = base.time, util.time
    for c in range(job["n_timed"]):
        kind = str(rng.choice(["gibbs", "pca", "hmc", "metropolis"]))
        d = int(rng.choice([1, 2]))
        regime = str(rng.choice(["fast", "medium", "slow", "very_slow"]))
        if regime == "fast" and kind == "hmc":
            regime = "medium"
        # run_for sizes its batches to last about one second, so a run always costs about
        # max(budget, 1 s) / step-cost steps: costs and budgets are paired to keep that below ~3e4 calls
        if regime == "fast":
            cost, budget = 10.0 ** rng.uniform(-4.5, -3.5), rng.uniform(1.0, 3.0)
        elif regime == "medium":
            cost, budget = 10.0 ** rng.uniform(-3, -1), rng.uniform(2.0, 40.0)
        elif regime == "slow":
            cost = 10.0 ** rng.uniform(0, 1.5)
            budget = cost * 10.0 ** rng.uniform(1.5, 3.3)
        else:
            cost = 10.0 ** rng.uniform(1.5, 2.78)
            budget = cost * 10.0 ** rng.uniform(1.0, 3.0)
        zero_budget = bool(rng.random() < 0.1)
        if zero_budget:
            budget = 0.0        # no time at all: a timed run with nothing to spend takes no step
        clock = VirtualClock()
        tgt = CostedTarget(clock, cost, d)
        ch = mc.make_sampler(kind, tgt, np.zeros(d) + 0.1, rng, grad=tgt.grad, display_progress=bool(rng.random() < 0.2), seed=int(rng.integers(2**31)))
        # the chain may already hold samples (earlier advance / run_for / load): the timed run must behave the same
        pre = int(rng.choice([0, 0, 60, 700, 5000])) if kind != "hmc" else int(rng.choice([0, 0, 30, 150]))
        if pre:
            r0 = guarded(ch.advance, pre)
            if isinstance(r0, Raised):
                rec.violation("raised", f"{kind}: advance({pre}) before the timed run raised {r0!r}", {"timed": c, "kind": kind})
                continue
            rec.count("run_for:on_pre_advanced_chain")
        unit = str(rng.choice(["minutes", "hours", "days"]))
        val = budget / {"minutes": 60.0, "hours": 3600.0, "days": 86400.0}[unit]
        kw = {unit: val}
        if rng.random() < 0.2:
            kw = {"minutes": 0.4 * budget / 60.0, "hours": 0.6 * budget / 3600.0}
        run_time = ((kw.get("days", 0) * 24.0 + kw.get("hours", 0)) * 60.0 + kw.get("minutes", 0)) * 60.0
        tctx = {"timed": c, "kind": kind, "d": d, "cost_per_posterior_call_s": cost, "budget_s": run_time, "args": kw, "samples_before": pre + 1}
        rec.context = tctx
        rec.count("run_for_runs")
        if regime in ("slow", "very_slow"):
            rec.count("run_for:slow_steps")
        rec.case(digest("timed", kind, d, cost, run_time), nontrivial=True)
        base.time = clock.time
        util.time = clock.time
        # timeline of step completions on the virtual clock (instance-level wrapper around take_step)
        done_at = []
        real_step = ch.take_step

        def timed_step(real_step=real_step, done_at=done_at, clock=clock):
            real_step()
            done_at.append(clock.now)

        ch.take_step = timed_step
        L_before = int(ch.chain_length)
        calls_before = tgt.calls
        t_start = clock.now
        try:
            r = guarded(ch.run_for, **kw)
        finally:
            base.time, util.time = real_time_base, real_time_util
            del ch.take_step
        if isinstance(r, Raised):
            if isinstance(r.exc, IdleSpin):
                rec.violation("timed-run-idles", f"{kind}: run_for polled the clock {clock.idle_limit} times without taking a step "
                              f"(step cost {cost:.3g} s, budget {run_time:.3g} s, {int(ch.chain_length) - L_before} steps taken)", tctx)
            else:
                rec.violation("raised", f"{kind}: run_for raised {r!r}", tctx)
            continue
        steps = int(ch.chain_length) - L_before
        calls = tgt.calls - calls_before
        elapsed = clock.now - t_start
        step_cost = cost * calls / max(steps, 1)
        got = guarded(lengths, ch, kind)
        rec.check((not isinstance(got, Raised)) and got[0] == got[1] == got[2], "wrong-number-of-samples",
                  lambda: f"{kind}: after run_for chain_length / samples / log-probabilities = {got}", tctx)
        if zero_budget:
            rec.count("run_for:zero_budget")
            rec.check(steps == 0 and calls == 0, "timed-run-overshoots",
                      lambda: f"{kind}: run_for with no time budget ({kw}) took {steps} steps ({calls} posterior evaluations)", tctx)
            continue
        rec.check(steps >= 1 and elapsed >= run_time, "timed-run-stopped-early",
                  lambda: f"{kind}: run_for returned after {elapsed:.6g} s of a {run_time:.6g} s budget ({steps} steps of ~{step_cost:.3g} s)", tctx)
        # it keeps stepping: (almost) all of the elapsed time was spent inside steps
        rec.check(cost * calls >= 0.999 * min(elapsed, run_time) - 1e-3, "timed-run-idles",
                  lambda: f"{kind}: only {cost * calls:.6g} s of the {elapsed:.6g} s were spent taking steps", tctx)
        # ... and then stops.  Steps are taken in batches (documented: a first batch of 20, then batches sized to
        # last about one second); the run may finish the batch in progress when the budget expires, nothing more.
        t_end = t_start + run_time
        starts = np.array([t_start] + done_at[:-1])
        ends = np.array(done_at)
        late = starts >= t_end
        if late.any() and len(done_at) > 20:
            dur = ends - starts
            late_time = float(dur[late].sum())
            allowed = 3.0 + 2.0 * float(dur.max())
            rec.check(late_time <= allowed, "timed-run-overshoots",
                      lambda: f"{kind}: {int(late.sum())} steps lasting {late_time:.6g} s were started after the {run_time:.6g} s budget had expired "
                              f"(longest single step {dur.max():.3g} s, {steps} steps in all)", tctx)
        rec.check(len(done_at) == steps, "wrong-number-of-samples", f"{kind}: {len(done_at)} steps were taken but the chain grew by {steps}", tctx)
        rec.note("last_timed", {"steps": steps, "elapsed": elapsed, "budget": run_time})
