"""C16 - GP derivative predictions are the derivatives of the GP prediction.

Monitors: post-conditions on the real GpRegressor.gradient and spatial_derivatives.
Oracles: Richardson central differences of the regressor's own __call__ (mean and
variance), and the closed-form gradient covariance
    dd'k(q,q) - dk(q,X) (K+S)^-1 dk(X,q)
written out for the squared-exponential kernel (the only one supporting derivatives).
"""
import numpy as np

from vmon.rec import digest
from vmon.util import mk_rng, guarded, Raised, num_grad_stable
from vmon.ref import gp as R
from vmon import gpgen as G

ID = "C16"
RULE = (
    "seeded regressors with the SquaredExponential kernel: n = 3-30 points, d = 1-4, all three mean functions, with and "
    "without data errors, hyper-parameters across their advertised range; single and batched queries near, between and far "
    "from the data; judged when cond(K+S) <= 1e8; non-trivial = d >= 2 or non-constant mean; distinct = distinct (data, theta, queries)"
)
ASSUMPTIONS = ["derivatives are compared at 2e-6 relative plus the rounding noise of the difference quotient (eps*cond*|value|/h)"]
TIMEOUT = {"quick": 300, "thorough": 1800}
REQUIRED = {"post:gradient": 100, "post:spatial_derivatives": 100, "cases:nonconstant_mean": 40, "cases:batched_d>=2": 30, "judged": 100, "mean_derivative_checks": 200, "variance_derivative_checks": 100, "cases:after_hyperparameter_update": 40}


def jobs(tier, seed):
    n_jobs = 16 if tier == "quick" else 32
    return [{"name": f"deriv-{j}", "seed": seed, "j": j, "n_cases": 80 if tier == "quick" else 500} for j in range(n_jobs)]


def run_job(job, rec):
    from inference.gp import GpRegressor, SquaredExponential
    from vmon.contracts import attach

    rng = mk_rng(job["seed"], "C16", job["j"])
    eps = np.finfo(float).eps
    a_g = attach(GpRegressor, "gradient")
    a_s = attach(GpRegressor, "spatial_derivatives")
    spec = ("SE",)

    for c in range(job["n_cases"]):
        d = int(rng.choice([1, 2, 2, 3, 4]))
        n = int(rng.choice([3, 5, 8, 13, 20, 30]))
        x = G.random_points(rng, n, d)
        y_scale = 10.0 ** rng.uniform(-2, 2)
        span = np.where(np.ptp(x, axis=0) > 0, np.ptp(x, axis=0), 1.0)
        y = y_scale * (np.sin(3 * (x - x.mean(0)) @ (rng.normal(size=d) / span)) + 0.2 * rng.normal(size=n))
        mean_name = str(rng.choice(G.MEANS))
        tm = G.random_mean_theta(mean_name, rng, x, y_scale)
        tc = G.random_theta(spec, rng, x, y_scale)
        noisy = rng.random() < 0.75
        err = y_scale * 10.0 ** rng.uniform(-3, -0.5, size=n) if noisy else None
        S = np.diag(err**2) if noisy else np.zeros((n, n))
        rec.context = {"case": c, "n": n, "d": d, "mean": mean_name, "noisy": bool(noisy)}
        rec.case(digest(x, y, tm, tc, S), nontrivial=d >= 2 or mean_name != "Constant")
        if mean_name != "Constant":
            rec.count("cases:nonconstant_mean")
        if c < 2:
            rec.sample({**rec.context, "theta_mean": tm, "theta_cov": tc, "x_head": x[:2]})
        Kxx0 = R.data_cov(spec, x, tc) + S
        cond = np.linalg.cond(Kxx0)
        if not np.isfinite(cond) or cond > 1e8:
            rec.count("skipped_ill_conditioned")
            continue
        kw = {"y_err": err} if noisy else {}
        gp = guarded(GpRegressor, x, y, hyperpars=np.concatenate([tm, tc]), kernel=SquaredExponential(),
                     mean=G.build_repo_mean(mean_name), **kw)
        if isinstance(gp, Raised):
            rec.violation("raised", f"GpRegressor construction raised {gp!r}", rec.context)
            continue
        rec.count("judged")
        a2 = np.exp(2 * tc[0])
        L = np.exp(tc[1:])
        Kxx = Kxx0 + np.eye(n) * a2 * 1e-12  # documented jitter

        # history: the first round of derivative calls is made with one set of hyper-parameters, then (sometimes)
        # the same object is updated and everything below is judged at the new values
        if rng.random() < 0.5:
            q0 = x[:2] + 0.37 * L
            guarded(gp.spatial_derivatives, q0)
            guarded(gp.gradient, q0)
            tc = tc + rng.uniform(0.15, 0.5, size=tc.size) * rng.choice([-1, 1], size=tc.size)
            tm = tm * (1 + 0.2 * rng.normal(size=tm.size))
            Kxx0 = R.data_cov(spec, x, tc) + S
            cond = np.linalg.cond(Kxx0)
            if not np.isfinite(cond) or cond > 1e8:
                rec.count("skipped_ill_conditioned")
                continue
            r = guarded(gp.set_hyperparameters, np.concatenate([tm, tc]))
            if isinstance(r, Raised):
                rec.violation("raised", f"set_hyperparameters raised {r!r}", rec.context)
                continue
            rec.count("cases:after_hyperparameter_update")
            rec.context = {**rec.context, "after": "set_hyperparameters"}
            a2 = np.exp(2 * tc[0])
            L = np.exp(tc[1:])
            Kxx = Kxx0 + np.eye(n) * a2 * 1e-12

        M = int(rng.choice([1, 1, 2, 3, 5]))
        q = []
        for _ in range(M):
            kind = rng.choice(["between", "near", "far"])
            if kind == "between":
                i, j = rng.integers(n, size=2)
                q.append(0.5 * (x[i] + x[j]) + rng.normal(size=d) * L * 0.05)
            elif kind == "near":
                q.append(x[rng.integers(n)] + rng.normal(size=d) * L * 0.3)
            else:
                q.append(x.mean(0) + rng.choice([-1, 1], size=d) * span * rng.uniform(1.5, 4))
        q = np.array(q)
        if M >= 2 and d >= 2:
            rec.count("cases:batched_d>=2")
        qa = q if rng.random() < 0.7 else [[float(v) for v in row] for row in q]

        if c % 3 == 0:
            # integer-typed query points (a lattice) are legitimate points: same answers as the same values as floats
            qi = np.round(q / L * 3).astype(int)
            if np.all(np.abs(qi) < 10**6):
                ga, gb = guarded(gp.gradient, qi), guarded(gp.gradient, qi.astype(float))
                sa, sb = guarded(gp.spatial_derivatives, qi), guarded(gp.spatial_derivatives, qi.astype(float))
                rec.count("integer_query_cases")
                okd = not any(isinstance(v, Raised) for v in (ga, gb, sa, sb)) and all(np.allclose(u, v, rtol=1e-12, atol=0) for u, v in zip(ga + sa, gb + sb))
                rec.check(okd, "depends-on-dtype-of-points",
                          lambda: f"integer-typed query points give {ga!r} / {sa!r}, the same points as floats give {gb!r} / {sb!r}", rec.context)
        out_g = guarded(gp.gradient, qa)
        out_s = guarded(gp.spatial_derivatives, qa)
        if isinstance(out_g, Raised) or isinstance(out_s, Raised):
            rec.violation("raised", f"gradient / spatial_derivatives raised {out_g!r} / {out_s!r}", rec.context)
            continue
        gm, gc = np.asarray(out_g[0], float), np.asarray(out_g[1], float)
        sm, sv = np.asarray(out_s[0], float), np.asarray(out_s[1], float)
        if M >= 2 and d >= 2:
            rec.check(gm.shape == (M, d) and gc.shape == (M, d, d) and sm.shape == (M, d) and sv.shape == (M, d),
                      "derivative-shapes", lambda: f"shapes {gm.shape}, {gc.shape}, {sm.shape}, {sv.shape} for {M} points in {d} dimensions", rec.context)
        if gm.size != M * d or gc.size != M * d * d or sm.size != M * d or sv.size != M * d:
            rec.violation("derivative-shapes", f"sizes {gm.shape}, {gc.shape}, {sm.shape}, {sv.shape} for {M} points in {d} dimensions", rec.context)
            continue
        gm, gc, sm, sv = gm.reshape(M, d), gc.reshape(M, d, d), sm.reshape(M, d), sv.reshape(M, d)

        for k in range(M):
            qk = q[k]
            h = 1e-3 * L
            mu0, s0 = gp(qk)
            val_scale = abs(float(mu0[0])) + np.abs(y).max()
            noise = 100 * eps * cond * val_scale / h
            dmu, stable = num_grad_stable(lambda t: float(gp(t)[0][0]), qk, h)
            if not stable:
                rec.count("skipped_unstable_reference")
                continue
            rec.count("mean_derivative_checks")
            gscale = max(np.abs(dmu).max(), 1e-300)
            tol = 2e-6 * gscale + noise + 2 * dmu.spread   # (not stricter than the numerical reference is consistent with itself)
            rec.check(bool(np.all(np.abs(gm[k] - np.asarray(dmu)) <= tol)), "gradient-mean",
                      lambda: f"{mean_name} mean, d={d}: gradient() mean {gm[k]} != numerical derivative of the predictive mean {dmu}", rec.context)
            rec.check(bool(np.all(np.abs(sm[k] - np.asarray(dmu)) <= tol)), "spatial-derivative-mean",
                      lambda: f"{mean_name} mean, d={d}: spatial_derivatives mean-gradient {sm[k]} != numerical {dmu}", rec.context)
            var0 = float(s0[0]) ** 2
            if var0 > 1e-6 * a2:
                dv, stable = num_grad_stable(lambda t: float(gp(t)[1][0]) ** 2, qk, h)
                if not stable:
                    rec.count("skipped_unstable_reference")
                    continue
                vtol = 2e-6 * max(np.abs(dv).max(), 1e-300) + 100 * eps * cond * a2 / h + 2 * dv.spread
                rec.count("variance_derivative_checks")
                rec.check(bool(np.all(np.abs(sv[k] - np.asarray(dv)) <= vtol)), "spatial-derivative-variance",
                          lambda: f"d={d}: variance gradient {sv[k]} != numerical derivative of the predictive variance {dv}", rec.context)
            # closed-form gradient covariance for the squared-exponential kernel
            kq = R.kernel(spec, qk[None, :], x, tc, n)[0]
            dk = kq[None, :] * ((x - qk[None, :]) / L[None, :] ** 2).T  # (d, n): d k(q, x_n) / d q_i
            ref_cov = np.diag(a2 / L**2) - dk @ np.linalg.solve(Kxx, dk.T)
            ctol = 500 * eps * cond * (a2 / L.min() ** 2)
            rec.check(bool(np.abs(gc[k] - ref_cov).max() <= ctol), "gradient-covariance",
                      lambda: f"d={d}: gradient covariance differs from the closed form by {np.abs(gc[k] - ref_cov).max():.3e} (tol {ctol:.2e})", rec.context)
            rec.check(bool(np.abs(gc[k] - gc[k].T).max() <= ctol), "gradient-covariance-asymmetric", "gradient covariance not symmetric", rec.context)
            lam = np.linalg.eigvalsh(0.5 * (gc[k] + gc[k].T))
            rec.check(lam.min() >= -ctol * d, "gradient-covariance-not-psd", lambda: f"gradient covariance eigenvalue {lam.min():.3e}", rec.context)

    # ------------------------------------------------ kernels other than the plain squared-exponential: a derivative prediction is either refused
    #                                                  (NotImplementedError: documented as not available) or it is the derivative of the prediction
    for c in range(job.get("n_composite", 6)):
        d = int(rng.choice([1, 2]))
        n = int(rng.choice([5, 8, 13]))
        x = G.random_points(rng, n, d)
        y_scale = 10.0 ** rng.uniform(-1, 1)
        span = np.where(np.ptp(x, axis=0) > 0, np.ptp(x, axis=0), 1.0)
        y = y_scale * (np.sin(3 * (x - x.mean(0)) @ (rng.normal(size=d) / span)) + 0.2 * rng.normal(size=n))
        cspec = [("SUM", [("SE",), ("WN",)]), ("SUM", [("SE",), ("SE",)]), ("SUM", [("SE",), ("RQ",)]), ("SUM", [("WN",), ("SE",)]), ("RQ",),
                 ("SUM", [("SE",), ("SE",), ("WN",)])][(c + job["j"]) % 6]
        tc = G.random_theta(cspec, rng, x, y_scale)
        tm = G.random_mean_theta("Constant", rng, x, y_scale)
        cctx = {"other_kernel": G.describe(cspec), "n": n, "d": d}
        rec.context = cctx
        Kc = R.data_cov(cspec, x, tc) + np.eye(n) * (0.05 * y_scale) ** 2
        if np.linalg.cond(Kc) > 1e8:
            continue
        gp = guarded(GpRegressor, x, y, y_err=np.full(n, 0.05 * y_scale), hyperpars=np.concatenate([tm, tc]), kernel=G.build_repo_kernel(cspec))
        if isinstance(gp, Raised):
            rec.violation("raised", f"GpRegressor construction raised {gp!r}", cctx)
            continue
        L_ = np.exp(tc[1:1 + d]) if cspec[0] != "SUM" or cspec[1][0][0] == "SE" else span * 0.3
        qk = x[rng.integers(n)] + rng.normal(size=d) * span * 0.1
        og, os_ = guarded(gp.gradient, qk), guarded(gp.spatial_derivatives, qk)
        rec.count("other_kernels:cases")
        if any(isinstance(v, Raised) and isinstance(v.exc, NotImplementedError) for v in (og, os_)):
            rec.count("other_kernels:derivatives_refused")
            continue
        if isinstance(og, Raised) or isinstance(os_, Raised):
            rec.violation("raised", f"{G.describe(cspec)}: gradient / spatial_derivatives raised {og!r} / {os_!r}", cctx)
            continue
        rec.count("other_kernels:derivatives_answered")
        dmu, st1 = num_grad_stable(lambda t: float(gp(t)[0][0]), qk, 1e-3 * span)
        dv, st2 = num_grad_stable(lambda t: float(gp(t)[1][0]) ** 2, qk, 1e-3 * span)
        if st1:
            for nm_, got_ in (("gradient()", np.ravel(np.asarray(og[0], float))), ("spatial_derivatives()", np.ravel(np.asarray(os_[0], float)))):
                rec.check(got_.shape == (d,) and bool(np.all(np.abs(got_ - np.asarray(dmu)) <= 1e-5 * max(np.abs(dmu).max(), 1e-300) + 2 * dmu.spread)), "gradient-mean",
                          lambda: f"{G.describe(cspec)}: {nm_} mean {got_} != numerical derivative of the predictive mean {np.asarray(dmu)}", cctx)
        if st2:
            gv = np.ravel(np.asarray(os_[1], float))
            rec.check(gv.shape == (d,) and bool(np.all(np.abs(gv - np.asarray(dv)) <= 1e-5 * max(np.abs(dv).max(), 1e-300) + 2 * dv.spread)), "spatial-derivative-variance",
                      lambda: f"{G.describe(cspec)}: variance gradient {gv} != numerical derivative of the predictive variance {np.asarray(dv)}", cctx)

    rec.count("post:gradient", a_g.calls)
    rec.count("post:spatial_derivatives", a_s.calls)
    a_g.detach()
    a_s.detach()
