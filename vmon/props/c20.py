"""C20 - conditional approximation evaluates and samples the true 1-D conditionals.

Monitors: post-conditions on piecewise_linear_sample, get_conditionals and
conditional_sample.  Oracles: the exact piecewise-quadratic CDF of the tabulated
density (probability-integral transform -> KS, and chi-square on cell counts);
the true conditional evaluated by the oracle's own substitution into the
posterior, normalised by fine quadrature over the bounds.
"""
import numpy as np

from vmon.rec import digest
from vmon.util import mk_rng, guarded, Raised
from vmon import stats as st

ID = "C20"
RULE = (
    "seeded tables (2-200 nodes; uniform, geometric, random and clustered grids; Gaussian, skewed, saw-tooth, zero-cell and "
    "steep tables; scales 1e-4..1e4) sampled 20000 times each; seeded posteriors (separable and correlated Gaussians in 1-5 "
    "dimensions, gamma-skewed and logistic conditionals, scales 1e-4..1e4) with bounds 3-200 conditional widths around the "
    "conditional mode and conditioning points on and off the mode; non-trivial = non-uniform grid (sampler) or correlated / "
    "off-mode conditioning (conditionals); distinct = distinct inputs"
)
ASSUMPTIONS = [
    "inference.approx.conditional.rng is replaced by a seeded generator",
    "KS / chi-square at first-stage 1e-4, confirmed at 1e-7 on a fresh 4x sample (family-wise false alarm < 1e-6)",
    "conditionals are compared with the true conditional at 2e-3 of the peak (the grid covers exp(-8) of the peak by design)",
]
TIMEOUT = {"quick": 400, "thorough": 2400}
REQUIRED = {"stat_tests": 100, "tables:nonuniform": 40, "tables:descending_cells": 40, "post:get_conditionals": 30,
            "conditionals_checked": 80, "cases:correlated": 8, "conditional_sample_calls": 10, "cases:bounds_thousands_of_widths": 3, "cases:conditioning_point_far_off_in_one_coordinate": 3}


def jobs(tier, seed):
    n_jobs = 16 if tier == "quick" else 32
    return [{"name": f"cond-{j}", "seed": seed, "j": j, "n_tables": 16 if tier == "quick" else 80,
             "n_post": 8 if tier == "quick" else 40, "n_draws": 20000} for j in range(n_jobs)]


# ------------------------------------------------------------------ exact CDF of a piecewise-linear table
class PLTable:
    def __init__(self, x, p):
        self.x, self.p = np.asarray(x, float), np.asarray(p, float)
        dx = np.diff(self.x)
        self.area = 0.5 * (self.p[1:] + self.p[:-1]) * dx
        self.cum = np.concatenate([[0.0], np.cumsum(self.area)])
        self.total = self.cum[-1]

    def cdf(self, t):
        t = np.asarray(t, float)
        i = np.clip(np.searchsorted(self.x, t, side="right") - 1, 0, self.x.size - 2)
        u = t - self.x[i]
        dx = self.x[i + 1] - self.x[i]
        slope = (self.p[i + 1] - self.p[i]) / dx
        return (self.cum[i] + self.p[i] * u + 0.5 * slope * u * u) / self.total

    def cell_probs(self):
        return self.area / self.total


def gen_table(rng):
    m = int(rng.choice([2, 3, 4, 6, 10, 25, 64, 200]))
    gk = str(rng.choice(["uniform", "geometric", "random", "clustered"]))
    if gk == "uniform":
        x = np.linspace(0, 1, m)
    elif gk == "geometric":
        x = np.concatenate([[0.0], np.cumsum(10.0 ** np.linspace(0, rng.uniform(1, 4), m - 1))])
    elif gk == "random":
        x = np.sort(rng.uniform(0, 1, size=m))
        x = np.unique(x)
        while x.size < m:
            x = np.unique(np.concatenate([x, rng.uniform(0, 1, size=m - x.size)]))
    else:
        x = np.sort(np.concatenate([rng.normal(0, 1, m // 2 + 1), rng.normal(0, 1e-3, m - m // 2 - 1)]))
        x = np.unique(x)
        if x.size < 2:
            x = np.array([0.0, 1.0])
    x = (x - x[0]) / (x[-1] - x[0])
    pk = str(rng.choice(["gauss", "skew", "saw", "zero_cells", "steep", "flat", "descending"]))
    if pk == "gauss":
        p = np.exp(-0.5 * ((x - rng.uniform(0.2, 0.8)) / rng.uniform(0.05, 0.5)) ** 2)
    elif pk == "skew":
        p = (x + 1e-3) ** rng.uniform(0.5, 3) * np.exp(-x * rng.uniform(1, 10))
    elif pk == "saw":
        p = rng.uniform(0, 1, size=x.size) * rng.choice([1.0, 1e-3, 1.0], size=x.size)
    elif pk == "zero_cells":
        p = rng.uniform(0, 1, size=x.size)
        if x.size >= 4:
            k = int(rng.integers(0, x.size - 2))
            p[k:k + 2] = 0.0
        p[int(rng.integers(x.size))] += 0.5
    elif pk == "steep":
        p = np.where(rng.random(x.size) < 0.5, 0.0, 1.0) * rng.uniform(0.5, 1, size=x.size)
        p[0] = 1.0
    elif pk == "flat":
        p = np.full(x.size, 0.7) * (1.0 + rng.normal(size=x.size) * 10.0 ** rng.uniform(-16, -6))     # exactly flat up to tilts of 1e-16 .. 1e-6
    else:
        p = np.sort(rng.uniform(0.01, 1, size=x.size))[::-1].copy()
    if p.sum() == 0 or np.all(p[:-1] + p[1:] == 0):
        p = p + 1.0
    scale = 10.0 ** rng.uniform(-4, 4)
    shift = rng.normal() * scale * rng.choice([0, 1, 100])
    return gk, pk, x * scale + shift, np.abs(p) * 10.0 ** rng.uniform(-3, 3)


# ------------------------------------------------------------------ posteriors with known conditionals
class OffsetPost:
    """The same posterior with a constant added to its logarithm (same conditionals)."""

    def __init__(self, inner, c):
        self.inner, self.c = inner, c

    def __call__(self, t):
        return self.inner(t) + self.c

    def __getattr__(self, name):
        return getattr(self.inner, name)


class GaussPost:
    def __init__(self, rng, d, correlated):
        self.d = d
        self.sd = 10.0 ** rng.uniform(-4, 4, size=d) if rng.random() < 0.5 else np.full(d, 10.0 ** rng.uniform(-2, 2))
        self.mu = rng.normal(size=d) * self.sd * rng.choice([0, 1, 5])
        if correlated and d > 1:
            A = rng.normal(size=(d, d))
            C = A @ A.T + 0.3 * np.eye(d)
            s = np.sqrt(np.diag(C))
            R = C / s[:, None] / s[None, :]
        else:
            R = np.eye(d)
        self.P = np.linalg.inv(R) / self.sd[:, None] / self.sd[None, :]
        self.kind = "gauss-correlated" if correlated and d > 1 else "gauss-separable"

    def __call__(self, t):
        r = np.asarray(t, float) - self.mu
        return -0.5 * r @ self.P @ r

    def cond(self, i, point):
        """Mode and width of the conditional of coordinate i through `point`."""
        r = np.asarray(point, float) - self.mu
        w = 1.0 / np.sqrt(self.P[i, i])
        m = self.mu[i] - (self.P[i] @ r - self.P[i, i] * r[i]) / self.P[i, i]
        return m, w


class SkewPost:
    """Separable: gamma-shaped and logistic-shaped conditionals."""

    def __init__(self, rng, d):
        self.d = d
        self.kinds = [str(rng.choice(["gamma", "logistic"])) for _ in range(d)]
        self.k = rng.uniform(2, 8, size=d)
        self.s = 10.0 ** rng.uniform(-4, 4, size=d)
        self.loc = rng.normal(size=d) * self.s
        self.kind = "skewed-separable"

    def __call__(self, t):
        t = np.asarray(t, float)
        out = 0.0
        for i in range(self.d):
            z = (t[i] - self.loc[i]) / self.s[i]
            if self.kinds[i] == "gamma":
                if z <= 0:
                    return -1e300
                out += (self.k[i] - 1) * np.log(z) - z
            else:
                out += -z - 2 * np.logaddexp(0.0, -z)
        return out

    def cond(self, i, point):
        if self.kinds[i] == "gamma":
            return self.loc[i] + self.s[i] * (self.k[i] - 1), self.s[i] * np.sqrt(self.k[i])
        return self.loc[i], self.s[i] * 1.8


def run_job(job, rec):
    import inference.approx.conditional as cmod
    from inference.approx import get_conditionals, conditional_sample
    from scipy.integrate import simpson
    from vmon.contracts import attach

    rng = mk_rng(job["seed"], "C20", job["j"])
    cmod.rng = np.random.default_rng(rng.integers(2**63))
    a_pls = attach(cmod, "piecewise_linear_sample")
    pls = cmod.piecewise_linear_sample

    # ------------------------------------------------ the sampler
    for c in range(job["n_tables"]):
        gk, pk, x, p = gen_table(rng)
        x_in, p_in = x, p
        if rng.random() < 0.15 and x.size >= 3:
            # an integer-typed table (bin numbers and counts) in the narrow types such data come in; same numbers as floats for the harness
            dt = [np.uint8, np.int16, np.uint16, np.int32][int(rng.integers(4))]
            ii = np.iinfo(dt)
            xi = np.unique(np.rint((x - x[0]) / (x[-1] - x[0]) * min(float(ii.max) * 0.9, 60000.0)))
            pi_ = np.rint(np.interp(xi, (x - x[0]) / (x[-1] - x[0]) * min(float(ii.max) * 0.9, 60000.0), p) / p.max() * min(float(ii.max) * 0.9, 60000.0))
            if xi.size >= 2 and pi_.sum() > 0 and not np.all(pi_[:-1] + pi_[1:] == 0):
                x_in, p_in = xi.astype(dt), pi_.astype(dt)
                x, p = xi.astype(float), pi_.astype(float)
                gk, pk = gk + f":{np.dtype(dt).name}", pk + ":counts"
                rec.count("tables:integer_typed")
        T = PLTable(x, p)
        ctx = {"table": c, "grid": gk, "density": pk, "nodes": int(x.size), "x": x, "p": p}
        rec.context = {k: v for k, v in ctx.items() if k not in ("x", "p")}
        uniform = bool(np.allclose(np.diff(x), np.diff(x)[0], rtol=1e-9))
        rec.case(digest("table", x, p), nontrivial=not uniform)
        if not uniform:
            rec.count("tables:nonuniform")
        if np.any(np.diff(p) < 0):
            rec.count("tables:descending_cells")
        if c < 2:
            rec.sample({"grid": gk, "density": pk, "x": x[:8], "p": p[:8]})
        first = guarded(pls, x_in.copy(), p_in.copy(), 16)
        if isinstance(first, Raised):
            rec.violation("raised", f"piecewise_linear_sample raised {first!r}", ctx)
            continue

        def pv_ks(n, stage):
            d = np.asarray(pls(x_in.copy(), p_in.copy(), n), float)
            if d.shape != (n,) or (d < x[0]).any() or (d > x[-1]).any() or not np.isfinite(d).all():
                return 0.0
            return st.ks_uniform_p(T.cdf(d))

        def pv_chi(n, stage):
            d = np.asarray(pls(x_in.copy(), p_in.copy(), n), float)
            idx = np.clip(np.searchsorted(x, d, side="right") - 1, 0, x.size - 2)
            obs = np.bincount(idx, minlength=x.size - 1).astype(float)
            exp = T.cell_probs() * n
            # merge sparse cells so that the chi-square approximation holds
            order = np.argsort(exp)
            o2, e2, ao, ae = [], [], 0.0, 0.0
            for k in order:
                ao += obs[k]
                ae += exp[k]
                if ae >= 20:
                    o2.append(ao)
                    e2.append(ae)
                    ao, ae = 0.0, 0.0
            if ae > 0 and e2:
                o2[-1] += ao
                e2[-1] += ae
            elif ae > 0:
                if ao > 0 and ae < 1e-6:
                    return 0.0
                return 1.0
            if len(e2) < 2:
                return 1.0
            return st.chi2_p(o2, e2)

        st.two_stage(rec, "draws-not-piecewise-linear", pv_ks, job["n_draws"],
                     lambda: f"samples from a {pk} table on a {gk} grid ({x.size} nodes) do not follow the piecewise-linear interpolant (KS)", ctx)
        st.two_stage(rec, "cell-probabilities", pv_chi, job["n_draws"],
                     lambda: f"cell counts for a {pk} table on a {gk} grid ({x.size} nodes) do not match density x width (chi-square)", ctx)

    # ------------------------------------------------ conditionals
    a_gc = attach(cmod, "get_conditionals")
    get_conditionals, conditional_sample = cmod.get_conditionals, cmod.conditional_sample
    for c in range(job["n_post"]):
        d = int(rng.choice([1, 2, 3, 5]))
        which = str(rng.choice(["sep", "corr", "corr", "skew"]))
        post = SkewPost(rng, d) if which == "skew" else GaussPost(rng, d, which == "corr")
        # conditioning point: on the joint mode, or off it by up to ~1.5 conditional widths per coordinate
        base = np.array([post.cond(i, np.zeros(d))[0] if which == "skew" else post.mu[i] for i in range(d)])
        off = bool(rng.random() < 0.6)
        widths0 = np.array([post.cond(i, base)[1] for i in range(d)])
        point = base + (rng.uniform(-1.2, 1.2, size=d) * widths0 if off else 0.0)
        bounds = []
        narrow = bool(rng.random() < 0.5)
        # sometimes one coordinate of the conditioning point is tens of conditional widths from its own conditional mode (the other conditionals pass
        # through a point of very low joint density), and sometimes the bounds are hundreds to thousands of widths wide
        far_i = int(rng.integers(d)) if (d >= 2 and which != "skew" and not narrow and rng.random() < 0.45) else None
        if far_i is not None:
            point[far_i] += rng.choice([-1.0, 1.0]) * rng.uniform(30, 60) * post.cond(far_i, point)[1]
            rec.count("cases:conditioning_point_far_off_in_one_coordinate")
        very_wide = bool(not narrow and far_i is None and rng.random() < 0.3)
        if very_wide:
            rec.count("cases:bounds_thousands_of_widths")
        for i in range(d):
            m, w = post.cond(i, point)
            span = rng.uniform(3, 14) if narrow else rng.uniform(14, 100)
            if very_wide:
                span = 10.0 ** rng.uniform(2.3, 3.7)
            if i == far_i:
                span = rng.uniform(80, 140)      # its own conditional is found by the 16-point search of wide bounds
            lo, hi = m - w * span * rng.uniform(0.3, 1.0), m + w * span * rng.uniform(0.3, 1.0)
            # wide bounds are only searched on 16 points: keep the conditioning coordinate in the high-density region
            if not narrow and abs(point[i] - m) > 1.5 * w and i != far_i:
                point[i] = m + np.sign(point[i] - m) * 1.2 * w
            if which == "skew" and post.kinds[i] == "gamma":
                lo = max(lo, post.loc[i] + 1e-3 * post.s[i])
            lo, hi = min(lo, point[i] - 0.5 * w), max(hi, point[i] + 0.5 * w)
            if not narrow and i != far_i and rng.random() < 0.25 and (hi - lo) > 20 * w:
                # the conditioning coordinate in the outermost fifteenth of the bounds range (next to a bound, not on it)
                gap = (hi - lo) * rng.uniform(0.005, 0.06)
                if rng.random() < 0.5:
                    hi = point[i] + max(gap, 0.5 * w)
                else:
                    lo = point[i] - max(gap, 0.5 * w)
                rec.count("cases:conditioning_coordinate_next_to_a_bound")
            if which == "skew" and post.kinds[i] == "gamma":
                lo = max(lo, post.loc[i] + 1e-3 * post.s[i])
                point[i] = max(point[i], lo + 0.01 * w)
            bounds.append((float(lo), float(hi)))
        # log-posteriors are defined up to an additive constant; real ones (log-likelihoods of thousands of data) sit at -1e3 .. -1e7
        offset = float(rng.choice([0.0, 0.0, -1.0, 1.0]) * 10.0 ** rng.uniform(2, 6.6))
        if offset != 0.0:
            post = OffsetPost(post, offset)
            rec.count("cases:log_posterior_offset")
        ctx = {"posterior": post.kind, "d": d, "off_mode": off, "narrow_bounds": narrow, "point": point, "bounds": bounds, "log_posterior_offset": offset}
        rec.context = ctx
        correlated = post.kind == "gauss-correlated"
        rec.case(digest("post", post.kind, point, bounds, getattr(post, "P", None)), nontrivial=correlated or off)
        if correlated:
            rec.count("cases:correlated")
        if c < 1:
            rec.sample(ctx)
        p_before = point.copy()
        gsz = int(rng.choice([32, 64, 101]))
        out = guarded(get_conditionals, post, bounds, point, gsz)
        if isinstance(out, Raised):
            rec.violation("raised", f"get_conditionals raised {out!r}", ctx)
            continue
        axes, probs = np.asarray(out[0], float), np.asarray(out[1], float)
        rec.check(np.array_equal(point, p_before), "conditioning-point-modified", "the conditioning point was modified", ctx)
        if not rec.check(axes.shape == (gsz, d) and probs.shape == (gsz, d), "conditional-shape", f"shapes {axes.shape}, {probs.shape}", ctx):
            continue
        for i in range(d):
            if i == far_i:
                continue     # (its own conditional is only met by luck of the 16-point search: outside what the property promises)
            xg, pg = axes[:, i], probs[:, i]
            lo, hi = bounds[i]
            m, w = post.cond(i, point)
            ictx = {**ctx, "variable": i, "cond_mode": m, "cond_width": w}
            rec.count("conditionals_checked")
            rec.check(bool(np.all(np.diff(xg) > 0)), "grid-not-ascending", "conditional grid is not ascending", ictx)
            tolb = 1e-9 * (hi - lo)
            rec.check(xg[0] >= lo - tolb and xg[-1] <= hi + tolb, "grid-outside-bounds",
                      lambda: f"grid [{xg[0]!r}, {xg[-1]!r}] leaves the bounds [{lo!r}, {hi!r}]", ictx)
            rec.check(bool(np.all(pg >= 0)) and abs(float(simpson(pg, x=xg)) - 1) <= 1e-9, "conditional-not-normalised",
                      lambda: f"tabulated conditional integrates to {float(simpson(pg, x=xg))!r}", ictx)

            # the oracle's own evaluation of the conditional through the point
            def L(v, i=i):
                t = point.copy()
                t[i] = v
                return post(t)

            Lg = np.array([L(v) for v in xg])
            good = pg > 0
            ratio = np.log(pg[good]) - Lg[good]
            rec.check(bool(np.ptp(ratio) <= 1e-8 + 16 * np.finfo(float).eps * abs(offset)), "not-proportional-to-conditional",
                      lambda: f"variable {i}: log(tabulated) - log(true conditional through the point) varies by {np.ptp(ratio):.3e} over the grid ({post.kind})", ictx)
            fine = np.linspace(lo, hi, 20001)
            Lf = np.array([L(v) for v in fine])
            Lmax = max(Lf.max(), Lg.max())
            Z = float(simpson(np.exp(Lf - Lmax), x=fine))
            true_p = np.exp(Lg - Lmax) / Z
            peak = true_p.max()
            rec.check(bool(np.abs(pg - true_p).max() <= 2e-3 * max(peak, float(np.exp(Lf.max() - Lmax) / Z))), "conditional-density-wrong",
                      lambda: f"variable {i}: tabulated conditional differs from the true normalised conditional by {np.abs(pg - true_p).max() / peak:.3e} of the peak", ictx)
            high = fine[Lf > Lf.max() - 7.9]
            span_tol = 0.06 * w + 2 * (fine[1] - fine[0])
            rec.check(high.min() >= xg[0] - span_tol and high.max() <= xg[-1] + span_tol, "high-density-region-not-covered",
                      lambda: f"variable {i}: conditional exceeds exp(-7.9) of its peak on [{high.min()!r}, {high.max()!r}] but the grid is [{xg[0]!r}, {xg[-1]!r}]", ictx)

        # an integer-typed conditioning point gives the conditionals through the same point as floats
        pi_ = np.round(point).astype(int)
        inside_i = all(b[0] < v < b[1] for v, b in zip(pi_, bounds))
        close = all(abs(pi_[i] - post.cond(i, pi_.astype(float))[0]) <= 1.5 * post.cond(i, pi_.astype(float))[1] for i in range(d)) if narrow is False else True
        if inside_i and close:
            oa, ob = guarded(get_conditionals, post, bounds, pi_, gsz), guarded(get_conditionals, post, bounds, pi_.astype(float), gsz)
            rec.count("integer_point_cases")
            okd = not isinstance(oa, Raised) and not isinstance(ob, Raised) and np.allclose(oa[0], ob[0], rtol=1e-12, atol=0) and np.allclose(oa[1], ob[1], rtol=1e-9, atol=0)
            rec.check(okd, "depends-on-dtype-of-point", lambda: f"an integer-typed conditioning point {pi_.tolist()} gives different conditionals from the same point as floats ({post.kind})", ctx)

        # history: the same conditioning-point array, moved in place (inside the same restrictions), then used again
        if d >= 1:
            shift = np.array([0.3 * post.cond(i, point)[1] * rng.choice([-1, 1]) for i in range(d)])
            newp = np.clip(point + shift, [b[0] for b in bounds], [b[1] for b in bounds])
            point[:] = 0.5 * (point + newp)
            guarded(get_conditionals, post, bounds, point, gsz)
            point[:] = newp
            out2 = guarded(get_conditionals, post, bounds, point, gsz)
            rec.count("in_place_point_updates")
            if isinstance(out2, Raised):
                rec.violation("raised", f"get_conditionals raised {out2!r} on the second call", ctx)
            else:
                ax2, pr2 = np.asarray(out2[0], float), np.asarray(out2[1], float)
                worst = 0.0
                for i in range(d):
                    def L2(v, i=i):
                        t = point.copy()
                        t[i] = v
                        return post(t)

                    good = pr2[:, i] > 0
                    ratio = np.log(pr2[good, i]) - np.array([L2(v) for v in ax2[good, i]])
                    worst = max(worst, float(np.ptp(ratio)))
                rec.check(worst <= 1e-8 + 16 * np.finfo(float).eps * abs(offset), "not-proportional-to-conditional",
                          lambda: f"after the conditioning point was moved in place, the tabulated conditionals are not those through the new point (log-ratio varies by {worst:.3e}; {post.kind})", ctx)

        # conditional samples: inside the bounds and distributed as the true conditionals
        if c % 2 == 0:
            ns = 6000
            smp = guarded(conditional_sample, post, bounds, point, ns)
            rec.count("conditional_sample_calls")
            if isinstance(smp, Raised):
                rec.violation("raised", f"conditional_sample raised {smp!r}", ctx)
                continue
            smp = np.asarray(smp, float)
            if not rec.check(smp.shape == (ns, d), "sample-shape", f"conditional_sample shape {smp.shape}", ctx):
                continue
            lo_a, hi_a = np.array([b[0] for b in bounds]), np.array([b[1] for b in bounds])
            rec.check(bool(np.all(smp >= lo_a) and np.all(smp <= hi_a)), "sample-outside-bounds", "conditional samples leave the bounds", ctx)
            if isinstance(post, GaussPost):
                from scipy import stats as sst

                for i in range(d):
                    m, w = post.cond(i, point)

                    def pv(n, stage, i=i, m=m, w=w):
                        s2 = smp[:, i] if stage == 0 else np.asarray(conditional_sample(post, bounds, point, n), float)[:, i]
                        lo, hi = bounds[i]
                        Fa, Fb = sst.norm.cdf(lo, m, w), sst.norm.cdf(hi, m, w)
                        return st.ks_uniform_p(np.clip((sst.norm.cdf(s2, m, w) - Fa) / (Fb - Fa), 0, 1))

                    st.two_stage(rec, "conditional-samples-wrong-distribution", pv, ns,
                                 lambda: f"variable {i}: conditional samples do not follow the true conditional N({m!r}, {w!r}) ({post.kind})", ctx)

    rec.count("post:piecewise_linear_sample", a_pls.calls)
    rec.count("post:get_conditionals", a_gc.calls)
    a_pls.detach()
    a_gc.detach()
