"""Small shared helpers: seeded generators, guarded calls, numeric derivatives."""
import zlib

import numpy as np


def mk_rng(seed, *tags):
    words = [int(seed) & 0xFFFFFFFF] + [zlib.crc32(str(t).encode()) for t in tags]
    return np.random.default_rng(np.random.SeedSequence(words))


class Raised:
    """Result of a guarded call that raised."""

    def __init__(self, exc):
        self.exc = exc

    def __repr__(self):
        return f"Raised({type(self.exc).__name__}: {str(self.exc).strip()[:200]})"


def guarded(fn, *a, **k):
    try:
        return fn(*a, **k)
    except Exception as exc:  # noqa: BLE001 - the monitor judges it
        return Raised(exc)


def ulp(x):
    return np.spacing(np.abs(np.asarray(x, dtype=float)))


def richardson(f, x, h, order=2):
    """Central-difference derivative of scalar/array-valued f at scalar x with one
    Richardson extrapolation step: error O(h^4)."""
    # use the steps actually taken (x + h is rounded when |x| >> h)
    a, b = x + h, x - h
    c, d = x + h / 2, x - h / 2
    d1 = (f(a) - f(b)) / (a - b)
    d2 = (f(c) - f(d)) / (c - d)
    return (4 * d2 - d1) / 3


def num_grad(f, x, h):
    """Richardson central-difference gradient of f: R^n -> R (or array) at x.
    h may be a scalar or per-coordinate array."""
    x = np.asarray(x, dtype=float)
    hs = np.broadcast_to(np.asarray(h, dtype=float), x.shape)
    out = []
    for i in range(x.size):
        def fi(t, i=i):
            y = x.copy()
            y[i] = t
            return np.asarray(f(y), dtype=float)
        out.append(richardson(fi, x[i], hs[i]))
    return np.array(out)


def rel_err(a, b, floor=0.0):
    a = np.asarray(a, dtype=float)
    b = np.asarray(b, dtype=float)
    scale = np.maximum(np.maximum(np.abs(a), np.abs(b)), floor)
    scale = np.where(scale == 0, 1.0, scale)
    return float(np.max(np.abs(a - b) / scale)) if a.size else 0.0


def snapshot(arr):
    """Bytes + shape + dtype of an array-like the caller owns."""
    a = np.asarray(arr)
    return (a.shape, str(a.dtype), a.tobytes())


class _GradWithSpread(np.ndarray):
    """ndarray carrying `spread`: the largest deviation of any step size tried from the accepted estimate (per component)."""


def num_grad_stable(f, x, h, rtol=1e-6, shrink=8.0, tries=3):
    """Self-validating numerical gradient: Richardson estimates at steps h, h/8, h/64...
    are compared; the first consecutive pair agreeing to `rtol` (relative to the largest
    component) is accepted.  Returns (gradient, True) or (last estimate, False) when the
    function has structure below the smallest step tried (case is then not judged).
    The accepted gradient carries `.spread`, the largest deviation of the estimates at the other
    steps tried from it: two steps can agree with each other and still differ from the larger ones
    (fine structure of the function, rounding in its evaluation), and a comparison with an analytic
    gradient should not be stricter than that."""
    ests = [num_grad(f, x, h)]
    for _ in range(tries):
        h = np.asarray(h, dtype=float) / shrink
        ests.append(num_grad(f, x, h))
        cur, prev = ests[-1], ests[-2]
        scale = max(np.abs(cur).max(), np.abs(prev).max(), 1e-300)
        if np.abs(cur - prev).max() <= rtol * scale:
            out = np.asarray(cur, float).view(_GradWithSpread)
            out.spread = np.max([np.abs(e - cur) for e in ests], axis=0)
            return out, True
    out = np.asarray(ests[-1], float).view(_GradWithSpread)
    out.spread = np.max([np.abs(e - ests[-1]) for e in ests], axis=0)
    return out, False
