"""C05 - likelihood classes are the normalised densities they are named after.

Monitors: post-conditions on __call__ / gradient / cost / cost_gradient of the real
classes.  Oracles: scipy.stats log-densities (value), quadrature over the datum
(normalisation), derivatives written from the maths and pushed through the
workload's known Jacobian (gradient), Richardson differences of the real
__call__ (cross-check), exact negation (cost / cost_gradient).
"""
import numpy as np

from vmon.rec import digest
from vmon.util import mk_rng, guarded, Raised, num_grad

ID = "C05"
RULE = (
    "seeded (class, data, uncertainties, forward model, theta): 1-200 data, per-datum sigma 1e-6..1e6 (one case in 20: data, predictions and sigma in units of 1e-250..1e-120 or 1e120..1e250), "
    "linear/polynomial/exponential models with exact Jacobians, residuals up to 1e3 sigma of both signs, "
    "arrays/lists/scalars; non-trivial = at least one non-zero residual; distinct = distinct (class, y, sigma, prediction)"
)
ASSUMPTIONS = ["scipy.stats.norm/cauchy/logistic.logpdf and scipy.integrate.quad are trusted references"]
TIMEOUT = {"quick": 300, "thorough": 1500}
REQUIRED = {"post:__call__": 300, "post:gradient": 300, "normalisation_integrals": 20, "cases:far_tail": 30, "in_place_theta_updates": 100, "cases:extreme_units": 30}

SQ3_PI = np.sqrt(3.0) / np.pi


def jobs(tier, seed):
    n_jobs = 16 if tier == "quick" else 32
    n_cases = 250 if tier == "quick" else 2500
    out = [{"name": f"lik-{j}", "seed": seed, "j": j, "n_cases": n_cases,
             "n_norm": 3 if tier == "quick" else 12} for j in range(n_jobs)]
    if tier == "thorough":
        out.append({"name": "repo-tests", "seed": seed, "j": 999, "mode": "repo_tests"})
    return out


# ---------------------------------------------------------------- reference model
def ref_terms(name, y, pred, s):
    from scipy import stats

    if name == "Gaussian":
        return stats.norm.logpdf(y, loc=pred, scale=s)
    if name == "Cauchy":
        return stats.cauchy.logpdf(y, loc=pred, scale=s)
    return stats.logistic.logpdf(y, loc=pred, scale=s * SQ3_PI)


def ref_dterm_dpred(name, y, pred, s):
    """d/d(pred) of the reference log-density, from the textbook formulas."""
    if name == "Gaussian":
        return ((y - pred) / s) / s
    if name == "Cauchy":
        z = (y - pred) / s
        return 2 * z / (s * (1 + z**2))
    sc = s * SQ3_PI
    return np.tanh(0.5 * (y - pred) / sc) / sc


class Model:
    unit = 1.0    # the unit in which the data (and so the predictions) are expressed

    def __init__(self, rng, n):
        self.kind = str(rng.choice(["linear", "poly", "exp"]))
        self.x = np.sort(rng.uniform(-1, 1, size=n))
        if self.kind == "linear":
            self.m = int(rng.integers(1, 6))
            self.A = rng.normal(size=(n, self.m)) * 10.0 ** rng.uniform(-2, 2)
            self.c = rng.normal(size=n)
            self.theta = rng.normal(size=self.m) * 10.0 ** rng.uniform(-1, 1)
        elif self.kind == "poly":
            self.m = int(rng.integers(1, 5))
            self.theta = rng.normal(size=self.m) * 3
        else:
            self.m = 3
            self.theta = np.array([rng.uniform(0.5, 5), rng.uniform(0.1, 3), rng.normal()])

    def __call__(self, t):
        t = np.asarray(t, dtype=float)
        if self.kind == "linear":
            return (self.A @ t + self.c) * self.unit
        if self.kind == "poly":
            return sum(t[k] * self.x**k for k in range(self.m)) * self.unit
        return (t[0] * np.exp(-t[1] * self.x) + t[2]) * self.unit

    def jac(self, t):
        t = np.asarray(t, dtype=float)
        if self.kind == "linear":
            return self.A * self.unit
        if self.kind == "poly":
            return np.stack([self.x**k for k in range(self.m)], axis=1) * self.unit
        e = np.exp(-t[1] * self.x)
        return np.stack([e, -t[0] * self.x * e, np.ones_like(self.x)], axis=1) * self.unit


def run_job(job, rec):
    if job.get("mode") == "repo_tests":
        from vmon import repotests

        return repotests.run(rec, ID)
    from inference import likelihoods as lk
    from scipy.integrate import quad
    from vmon.contracts import attach

    rng = mk_rng(job["seed"], "C05", job["j"])
    classes = {"Gaussian": lk.GaussianLikelihood, "Cauchy": lk.CauchyLikelihood,
               "Logistic": lk.LogisticLikelihood}
    atts = {m: attach(lk.Likelihood, m) for m in ("__call__", "gradient", "cost", "cost_gradient")}

    for c in range(job["n_cases"]):
        name = str(rng.choice(list(classes)))
        cls = classes[name]
        n = int(rng.choice([1, 1, 2, 3, 5, 10, 50, 200]))
        model = Model(rng, n)
        theta = model.theta + rng.normal(size=model.m) * 0.1
        base = 10.0 ** rng.uniform(-6, 6)
        extreme = bool(rng.random() < 0.05)
        if extreme:
            # data, predictions and uncertainties all expressed in a very small or very large unit (1e-250 .. 1e-120, 1e120 .. 1e250):
            # every standardised residual, and the gradient, are of ordinary size
            model.unit = 10.0 ** (rng.choice([-1, 1]) * rng.uniform(120, 250))
            base = model.unit * 10.0 ** rng.uniform(-2, 2)
            rec.count("cases:extreme_units")
        pred_true = model(model.theta)
        s = base * 10.0 ** rng.uniform(-1, 1, size=n)
        spread = str(rng.choice(["wide", "wide", "equal", "nearly_equal"]))
        if spread == "equal":
            s = np.full(n, base)
        elif spread == "nearly_equal":
            # distinct uncertainties that agree to 5..12 digits (a calibrated instrument): each datum still has its own
            s = base * (1.0 + rng.uniform(-1, 1, size=n) * 10.0 ** rng.uniform(-12, -5))
        rec.count("sigma_spread:" + spread)
        regime = str(rng.choice(["core", "mixed", "far_tail"]))
        if regime == "core":
            zres = rng.normal(size=n)
        elif regime == "mixed":
            zres = rng.normal(size=n) * 10.0 ** rng.uniform(0, 2, size=n)
        else:
            zres = rng.choice([-1, 1], size=n) * 10.0 ** rng.uniform(2, 3, size=n)
        y = pred_true + zres * s
        rec.context = {"case": c, "class": name, "n": n, "model": model.kind, "regime": regime, "sigma_base": base}

        form = str(rng.choice(["array", "list", "scalar", "int"])) if n == 1 else str(rng.choice(["array", "list", "row2d", "nested", "column2d", "int", "intlist", "f32"]))
        if extreme:
            form = str(rng.choice(["array", "list"]))
        if form in ("int", "intlist"):
            # integer-typed data and uncertainties (counts): legal input, must be treated as the same numbers
            y = np.rint(np.clip(y, -1e15, 1e15))
            s = np.maximum(np.rint(np.clip(s, 0, 1e15)), 1.0)
        elif form == "f32":
            # float32 data (the uncertainties stay float64: arithmetic on float32 uncertainties is legitimately single precision)
            y = y.astype(np.float32).astype(float)
        int_theta = bool(rng.random() < 0.15)
        if int_theta:
            theta = np.rint(theta * 2)
        if form == "list":
            ya, sa = [float(v) for v in y], [float(v) for v in s]
        elif form == "row2d":       # shapes the constructor accepts and squeezes
            ya, sa = y.reshape(1, n).copy(), s.reshape(1, n).copy()
        elif form == "column2d":
            ya, sa = y.reshape(n, 1).copy(), s.copy()
        elif form == "nested":
            ya, sa = [[float(v) for v in y]], [float(v) for v in s]
        elif form == "scalar":
            ya, sa = float(y[0]), float(s[0])
        elif form == "int":
            ya, sa = y.astype(np.int64), s.astype(np.int64)
            if rng.random() < 0.6:
                # the narrowest integer type that holds the values (detector counts come as uint8 / int16 / uint16 / int32 arrays)
                def narrow(a, kinds):
                    for dt in kinds:
                        ii = np.iinfo(dt)
                        if a.min() >= ii.min and a.max() <= ii.max:
                            return a.astype(dt)
                    return a

                ya = narrow(ya, [np.int8, np.int16, np.int32])
                sa = narrow(sa, [np.uint8, np.int16, np.uint16, np.int32, np.uint32])
                rec.count(f"forms:int:{ya.dtype}/{sa.dtype}")
        elif form == "intlist":
            ya, sa = [int(v) for v in y], [int(v) for v in s]
        elif form == "f32":
            ya, sa = y.astype(np.float32), s.copy()
        else:
            ya, sa = y.copy(), s.copy()

        L = guarded(cls, ya, sa, model, model.jac)
        if isinstance(L, Raised):
            rec.violation("raised", f"{name}Likelihood constructor raised {L!r}", rec.context)
            continue
        pred = model(theta)
        if int_theta:
            theta = theta.astype(np.int64)
            rec.count("cases:integer_typed_parameters")
        rec.case(digest(name, y, s, pred), nontrivial=bool(np.any(y != pred)))
        rec.count("cases:" + regime)
        rec.count("cases:" + name)
        rec.count("forms:" + form)
        if c < 2:
            rec.sample({**rec.context, "y_head": y[:3], "sigma_head": s[:3], "theta": theta})

        # ---- value
        terms = ref_terms(name, y, pred, s)
        ref = float(np.sum(terms))
        val = guarded(L, theta)
        if isinstance(val, Raised):
            rec.violation("raised", f"__call__ raised {val!r}", rec.context)
            continue
        tol = 64 * np.finfo(float).eps * (np.abs(terms).sum() + np.abs(np.log(s)).sum() + n)
        rec.check(np.isfinite(val) and abs(float(val) - ref) <= tol, "value",
                  lambda: f"{name} log-likelihood {float(val)!r} != sum of reference log-pdfs {ref!r} (tol {tol:.2e})",
                  rec.context)
        cost = guarded(L.cost, theta)
        rec.check((not isinstance(cost, Raised)) and float(cost) == -float(val), "cost-not-negative-value",
                  lambda: f"cost {cost!r} is not the exact negative of the value {val!r}", rec.context)

        # ---- gradient through the known Jacobian
        J = model.jac(theta)
        contrib = ref_dterm_dpred(name, y, pred, s)[:, None] * J
        gref = contrib.sum(axis=0)
        g = guarded(L.gradient, theta)
        if isinstance(g, Raised):
            rec.violation("raised", f"gradient raised {g!r}", rec.context)
            continue
        g = np.asarray(g, dtype=float)
        gtol = 1e-11 * np.abs(contrib).sum(axis=0) + 1e-300
        ok = g.shape == gref.shape and bool(np.all(np.abs(g - gref) <= gtol))
        rec.check(ok, "gradient", lambda: f"{name} gradient {g} != analytic reference {gref}", rec.context)
        g_again = guarded(L.gradient, theta)
        rec.check((not isinstance(g_again, Raised)) and np.array_equal(np.asarray(g_again, float), g) and guarded(L, theta) == val, "repeated-call-differs",
                  "two identical calls returned different values / gradients", rec.context)
        cg = guarded(L.cost_gradient, theta)
        rec.check((not isinstance(cg, Raised)) and np.array_equal(np.asarray(cg), -g), "cost-gradient-not-negative",
                  "cost_gradient is not the exact negative of gradient", rec.context)

        # ---- history: the caller re-uses one parameter array and modifies it in place between calls
        if c % 2 == 0:
            th = np.array(theta, dtype=float)
            for rep in range(2):
                k0 = int(rng.integers(th.size))
                th[k0] += (0.05 + 0.1 * rng.random()) * max(abs(th[k0]), 0.1)
                pr = model(th)
                tr = ref_terms(name, y, pr, s)
                v2 = guarded(L, th)
                g2 = guarded(L.gradient, th)
                rec.count("in_place_theta_updates")
                tol2 = 64 * np.finfo(float).eps * (np.abs(tr).sum() + np.abs(np.log(s)).sum() + n)
                rec.check((not isinstance(v2, Raised)) and abs(float(v2) - float(tr.sum())) <= tol2, "stale-after-in-place-update",
                          lambda: f"{name}: after the parameter array was modified in place the log-likelihood is {v2!r}, the reference at the new values is {float(tr.sum())!r}", rec.context)
                c2 = ref_dterm_dpred(name, y, pr, s)[:, None] * model.jac(th)
                okg = (not isinstance(g2, Raised)) and bool(np.all(np.abs(np.asarray(g2, float) - c2.sum(axis=0)) <= 1e-11 * np.abs(c2).sum(axis=0) + 1e-300))
                rec.check(okg, "stale-after-in-place-update", lambda: f"{name}: gradient after an in-place parameter update {g2!r} != reference {c2.sum(axis=0)}", rec.context)

        # ---- cross-check: Richardson differences of the real __call__ (moderate residuals only)
        if regime == "core":
            scale_t = np.maximum(np.abs(theta), 1e-2)
            # step chosen so that predictions move by a fraction of sigma
            move = np.abs(J).max(axis=0) + 1e-300
            h = np.minimum(1e-3 * scale_t, 0.05 * s.min() / move)
            if np.all(h > 1e-9 * scale_t):
                gn = num_grad(lambda t: L(t), theta, h)
                gscale = np.abs(contrib).sum(axis=0) + 1e-300
                rec.count("fd_crosschecks")
                noise = 10 * tol / h  # rounding of the value itself, amplified by the difference quotient
                rec.check(bool(np.all(np.abs(gn - g) <= 2e-4 * gscale + noise)), "gradient-vs-finite-difference",
                          lambda: f"gradient {g} disagrees with Richardson derivative of __call__ {gn}", rec.context)

    # ---- normalisation: integral over the datum of exp(L) for one-point likelihoods
    for k in range(job["n_norm"]):
        for name, cls in classes.items():
            s1 = 10.0 ** rng.uniform(-6, 6)
            p1 = rng.normal() * 10.0 ** rng.uniform(-3, 3)
            rec.context = {"normalisation": name, "sigma": s1, "prediction": p1}

            def dens(u, cls=cls, s1=s1, p1=p1):
                return float(np.exp(cls(np.array([p1 + s1 * u]), np.array([s1]), lambda t: np.array([p1]))(np.zeros(1))))

            parts = [quad(dens, a, b, limit=200)[0] for a, b in
                     [(-np.inf, -30), (-30, -5), (-5, 0), (0, 5), (5, 30), (30, np.inf)]]
            # exp(L) is a density in y; with y = p + s*u,  dy = s du
            integral = sum(parts) * s1
            rec.count("normalisation_integrals")
            rec.case(digest("norm", name, s1, p1))
            rec.check(abs(integral - 1.0) <= 1e-6, "not-normalised",
                      lambda: f"{name} likelihood integrates to {integral!r} over the datum (sigma={s1:.3e})", rec.context)

    for m, a in atts.items():
        rec.count("post:" + m, a.calls)
        a.detach()
