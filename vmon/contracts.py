"""Contract monitors attached from the harness (no repository edit).

`attach(owner, name, post=..., pre=...)` replaces the attribute `name` of a class or
module by a wrapper that runs the real callable and then the oracle `post` with the
arguments and the result.  Every attachment counts its evaluations; a monitor
whose count stays zero decided nothing (-> inconclusive), e.g. because the code
under test bound the original function before the contract was attached.

A 40-line wrapper is used instead of icontract because (a) a fresh restore has
no third-party packages beside the repository's own and the checks must not
depend on an install step succeeding, and (b) icontract's class invariants fire
after the base __init__, which the repository's load() class-methods call with
no start point (half-built objects by design).
"""
import functools


class Attachment:
    def __init__(self, owner, name, original):
        self.owner, self.name, self.original = owner, name, original
        self.calls = 0

    def detach(self):
        setattr(self.owner, self.name, self.original)


def attach(owner, name, post=None, pre=None):
    raw = owner.__dict__[name] if isinstance(owner, type) else getattr(owner, name)
    is_static = isinstance(raw, staticmethod)
    is_class = isinstance(raw, classmethod)
    func = raw.__func__ if (is_static or is_class) else raw
    att = Attachment(owner, name, raw)

    @functools.wraps(func)
    def wrapper(*args, **kwargs):
        att.calls += 1
        if pre is not None:
            pre(*args, **kwargs)
        result = func(*args, **kwargs)
        if post is not None:
            post(result, *args, **kwargs)
        return result

    wrapped = staticmethod(wrapper) if is_static else classmethod(wrapper) if is_class else wrapper
    setattr(owner, name, wrapped)
    return att
