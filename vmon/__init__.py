"""Runtime-monitoring framework for C-bowman/inference-tools (see /verif/DESIGN.md)."""
