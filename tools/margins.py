"""tools/margins.py [props...] - development aid: runs the quick checks on seeds 0-2 and lists REQUIRED counters whose smallest observed value is below 2.5 times the minimum."""
import json,importlib,sys,subprocess,os
sys.path.insert(0,'/verif'); sys.path.insert(0,'/repo')
props=sys.argv[1:] or [f"C{i:02d}" for i in range(1,21)]
for pid in props:
    m=importlib.import_module(f"vmon.props.{pid.lower()}")
    mins={}
    for seed in (0,1,2):
        ev=f"/tmp/marg-{pid}-{seed}"  # scratch evidence directory, removed below
        subprocess.run(["./check",pid,"--seed",str(seed)],env={**os.environ,"VERIF_EVIDENCE_DIR":ev},capture_output=True,cwd="/verif")
        c=json.load(open(f"{ev}/{pid}.json"))['coverage']['monitor_counters']
        for k,v in m.REQUIRED.items(): mins[k]=min(mins.get(k,1e18),c.get(k,0))
        subprocess.run(["rm","-rf",ev])
    low={k:(mins[k],v) for k,v in m.REQUIRED.items() if mins[k] < 2.5*v}
    print(pid, low)
