"""C13 - sample_hdi returns the shortest interval holding the requested fraction.

Monitor: a post-condition attached to the real `inference.pdf.hdi.sample_hdi`,
evaluated on every call the workload makes.  Oracle = brute force over sorted
windows + metamorphic re-runs (permutation, column-wise, positive affine map).
"""
from fractions import Fraction

import numpy as np

from vmon.rec import digest
from vmon.util import mk_rng, guarded, Raised, snapshot

ID = "C13"
RULE = (
    "seeded samples (normal, heavy-tailed, skewed (densest at an edge), tied integers, outliers, multi-modal, constant-plus-one; "
    "n = 2..5000 and chain-sized (5001..40000, one case in 40); float64/float32/int/list; 1-D and 2-D) x fractions (uniform, tiny, near 1, exactly k/n and k/n +- 1ulp); "
    "a case is non-trivial when the sample has >= 3 distinct values (the window position is not forced); "
    "distinct = distinct (sample bytes, fraction)"
)
ASSUMPTIONS = [
    "float comparisons: coverage is decided with exact rational arithmetic on fraction*n; affine covariance is compared at 16 ulp of the transformed magnitudes",
]
TIMEOUT = {"quick": 300, "thorough": 1500}
REQUIRED = {"post:sample_hdi": 200, "cases:ties": 10, "cases:2d": 10, "cases:k_over_n": 10, "cases:large_n": 100}


def jobs(tier, seed):
    n_jobs = 16 if tier == "quick" else 32
    n_cases = 600 if tier == "quick" else 4000
    out = [{"name": f"hdi-{j}", "seed": seed, "j": j, "n_cases": n_cases} for j in range(n_jobs)]
    if tier == "thorough":
        out.append({"name": "repo-tests", "seed": seed, "j": 999, "mode": "repo_tests"})
    return out


def gen_sample(rng, n, kind=None):
    kind = kind or rng.choice(["normal", "cauchy", "ties", "outliers", "bimodal", "const1", "sorted", "lognormal", "near_ties", "grid", "skewed"])
    scale = 10.0 ** rng.uniform(-6, 6)
    shift = rng.choice([0.0, 1.0, -1.0, 1e3, -1e6]) * scale * rng.choice([0, 1])
    if kind == "near_ties" and n >= 4:
        # two clusters with the same pattern, the lower one wider by a relative 1e-12 .. 1e-7: candidate windows whose widths are
        # nearly, but not, equal (with fraction = half the points the narrower, upper cluster is the answer)
        m = n // 2
        u = np.sort(rng.uniform(0, 1, size=m))
        u[0], u[-1] = 0.0, 1.0
        delta = 10.0 ** rng.uniform(-12, -7)
        s = np.concatenate([u * (1 + delta) - 10.0, u + 10.0, np.full(n - 2 * m, 50.0)])
        return kind, rng.permutation(s) * (scale if rng.random() < 0.5 else 1.0)
    if kind == "grid":
        # evenly spaced values (time-stamps, bin centres): every window of a given count has the same width up to rounding
        step = 10.0 ** rng.uniform(-3, 3)
        s = float(rng.integers(0, 2**30)) * step * rng.choice([0, 1]) + step * np.arange(n)
        return kind, rng.permutation(s)
    if kind == "normal":
        s = rng.normal(size=n)
    elif kind == "cauchy":
        s = rng.standard_cauchy(size=n)
    elif kind == "ties":
        s = rng.integers(0, max(2, int(rng.integers(2, 8))), size=n).astype(float)
    elif kind == "outliers":
        s = rng.normal(size=n)
        m = max(1, n // 20)
        s[rng.choice(n, size=m, replace=False)] += rng.normal(size=m) * 1e4
    elif kind == "bimodal":
        s = np.where(rng.random(n) < 0.4, rng.normal(-3, 0.3, n), rng.normal(2, 1.0, n))
    elif kind == "const1":
        s = np.zeros(n)
        s[rng.integers(n)] = 1.0
    elif kind == "skewed":
        # densest at one edge of the sample (waiting times, variances): exponential / gamma, or their mirror images
        s = rng.exponential(size=n) if rng.random() < 0.5 else rng.gamma(rng.uniform(0.3, 2.0), size=n)
        if rng.random() < 0.3:
            s = -s
    elif kind == "sorted":
        s = np.sort(rng.exponential(size=n))
        if rng.random() < 0.5:
            s = s[::-1].copy()
    else:
        s = rng.lognormal(0, 1.5, size=n)
    return kind, s * scale + shift


def gen_fraction(rng, n):
    mode = rng.choice(["uniform", "tiny", "high", "k_over_n", "k_over_n_pm"])
    if mode == "uniform":
        f = rng.uniform(0.01, 0.99)
    elif mode == "tiny":
        f = 10.0 ** rng.uniform(-3, -1)
    elif mode == "high":
        f = 1 - 10.0 ** rng.uniform(-3, -1)
    else:
        k = int(rng.integers(1, n)) if n > 1 else 1
        f = k / n
        if mode == "k_over_n_pm":
            f = float(np.nextafter(f, rng.choice([0.0, 1.0])))
    f = min(max(f, 1e-6), 1 - 1e-9)
    return mode, float(f)


def oracle_1d(rec, raw, fraction, res, tag):
    """Post-condition for a 1-D call. `raw` is the caller's data as float64."""
    case = {"n": int(raw.size), "fraction": fraction, "tag": tag, "result": res,
            "sample_head": raw[:6]}
    if isinstance(res, Raised):
        rec.violation("raised", f"sample_hdi raised {res!r}", case)
        return None
    res = np.asarray(res)
    if not rec.check(res.shape == (2,), "shape", lambda: f"1-D result has shape {res.shape}", case):
        return None
    lo, hi = float(res[0]), float(res[1])
    s = np.sort(raw)
    n = s.size
    rec.check(lo <= hi, "order", "lower end above upper end", case)
    rec.check(bool((s == lo).any() and (s == hi).any()), "endpoints-not-sample-values",
              lambda: f"end points ({lo}, {hi}) are not both sample values", case)
    count = int(((s >= lo) & (s <= hi)).sum())
    need = Fraction(fraction) * n
    rec.check(Fraction(count) >= need, "coverage",
              lambda: f"interval holds {count} of {n} points, fewer than fraction*n = {float(need):.6f}", case)
    # brute force: the shortest window between two sample values holding `count` points
    if 1 <= count <= n:
        best = float((s[count - 1:] - s[: n - count + 1]).min())
        # window widths are computed in the dtype of the input: near-ties below that precision are not a defect
        mag = max(abs(lo), abs(hi), 1e-300)
        slack = 4 * (float(np.spacing(np.float32(mag))) if tag == "f32" else np.spacing(mag))
        rec.check(hi - lo <= best + slack, "not-shortest",
                  lambda: f"width {hi - lo!r} but a window holding {count} points has width {best!r}", case)
    return lo, hi


def run_job(job, rec):
    if job.get("mode") == "repo_tests":
        from vmon import repotests

        return repotests.run(rec, ID)
    from inference.pdf import hdi as hdi_mod
    from vmon.contracts import attach

    rng = mk_rng(job["seed"], "C13", job["j"])
    att = attach(hdi_mod, "sample_hdi")
    sample_hdi = hdi_mod.sample_hdi  # the monitored callable

    sizes = [2, 3, 4, 5, 6, 7, 10, 19, 20, 21, 50, 100, 101, 333, 1000, 5000]
    for c in range(job["n_cases"]):
        n = int(rng.choice(sizes)) if rng.random() < 0.7 else int(np.exp(rng.uniform(np.log(2), np.log(3000))))
        if c % 40 == 7:
            # chain-sized samples
            n = int(rng.choice([5001, 8192, 12345, 21385, 40000]))
            rec.count("cases:large_n")
        kind, s64 = gen_sample(rng, n, "skewed" if c % 80 == 7 else None)
        fmode, f = gen_fraction(rng, n)
        if kind == "near_ties" and n >= 4:
            fmode, f = "half", float((n // 2) / n)
            rec.count("cases:near_tied_windows")
        form = rng.choice(["f64", "f32", "int", "list", "2d"], p=[0.45, 0.1, 0.1, 0.15, 0.2])
        rec.context = {"case": c, "n": n, "kind": kind, "fraction": f, "form": str(form)}

        if form == "f32":
            arg = s64.astype(np.float32)
            raw = arg.astype(np.float64)
        elif form == "int":
            # integer-typed samples, in the narrow types such data come in, using most of the type's range
            dt = [np.int64, np.int8, np.uint8, np.int16, np.uint16, np.int32][int(rng.integers(6))]
            if dt is np.int64:
                arg = np.round(s64 / (np.abs(s64).max() + 1e-300) * 50).astype(np.int64)
            else:
                ii = np.iinfo(dt)
                z = (s64 - s64.min()) / max(s64.max() - s64.min(), 1e-300)
                arg = np.rint(float(ii.min) + z * (float(ii.max) - float(ii.min))).astype(dt)
            rec.count(f"forms:int:{np.dtype(dt).name}")
            raw = arg.astype(np.float64)
        elif form == "list":
            arg = [float(v) for v in s64]
            raw = s64.copy()
        elif form == "2d":
            ncol = int(rng.integers(1, 5))
            cols = [s64] + [gen_sample(rng, n)[1] for _ in range(ncol - 1)]
            arg = np.stack(cols, axis=1)
            raw = arg.copy()
            if ncol == 1 and n >= 3 and rng.random() < 0.3:
                # a square table: as many columns as rows
                cols = [s64] + [gen_sample(rng, n)[1] for _ in range(n - 1)] if n <= 12 else cols
                arg = np.stack(cols, axis=1)
                raw = arg.copy()
            nest = rng.random()
            if nest < 0.35:
                # the same table as a nested sequence (list of rows / tuple of tuples / list of row arrays): a documented Sequence input
                arg = [[float(v) for v in row] for row in raw] if nest < 0.15 else tuple(tuple(float(v) for v in row) for row in raw) if nest < 0.25 else [row.copy() for row in raw]
                rec.count("forms:2d_nested_sequence")
        else:
            arg = s64.copy()
            raw = s64.copy()

        distinct = np.unique(raw).size
        rec.case(digest(raw, f), nontrivial=distinct >= 3)
        rec.count("cases:" + str(form))
        rec.count("cases:" + str(fmode).replace("_pm", ""))
        if kind == "ties":
            rec.count("cases:ties")
        if c < 2:
            rec.sample({"n": n, "kind": kind, "form": str(form), "fraction": f, "head": raw.ravel()[:5]})

        before = snapshot(arg) if isinstance(arg, np.ndarray) else snapshot(np.asarray(arg, float))
        res = guarded(sample_hdi, arg, f)
        after = snapshot(arg) if isinstance(arg, np.ndarray) else snapshot(np.asarray(arg, float))
        rec.check(before == after, "input-modified", "the caller's sample was modified by the call",
                  {"n": n, "form": str(form)})

        if form == "2d":
            if isinstance(res, Raised):
                rec.violation("raised", f"2-D call raised {res!r}", rec.context)
                continue
            res = np.asarray(res)
            want_shape = (2, raw.shape[1]) if raw.shape[1] > 1 else (2,)
            if not rec.check(res.shape == want_shape, "shape-2d",
                             lambda: f"2-D result shape {res.shape}, expected {want_shape}", rec.context):
                continue
            res2 = res.reshape(2, -1)
            for j in range(raw.shape[1]):
                col = raw[:, j].copy()
                oracle_1d(rec, col, f, res2[:, j], "2d-col")
                one = guarded(sample_hdi, col, f)
                ok = (not isinstance(one, Raised)) and np.array_equal(np.asarray(one), res2[:, j])
                rec.check(ok, "column-differs-from-1d",
                          lambda: f"column {j}: 2-D call gave {res2[:, j]}, 1-D call gave {one}", rec.context)
            continue

        got = oracle_1d(rec, raw, f, res, str(form))
        if got is None:
            continue
        lo, hi = got

        # permutation invariance (exact: the routine sorts a copy)
        perm = rng.permutation(n)
        argp = arg[perm] if isinstance(arg, np.ndarray) else [arg[i] for i in perm]   # same dtype / container as the original call
        resp = guarded(sample_hdi, argp, f)
        rec.check((not isinstance(resp, Raised)) and np.array_equal(np.asarray(resp, dtype=float), np.array([lo, hi])),
                  "order-dependent", lambda: f"reordered sample gave {resp}, original gave {(lo, hi)}", rec.context)
        if form == "f32":
            rec.count("f32_cases")

        # positive affine covariance, on float64 data
        if form in ("f64", "list"):
            a = 10.0 ** rng.uniform(-3, 3)
            b = rng.normal() * 10.0 ** rng.uniform(-3, 3) * rng.choice([0, 1])
            t = a * raw + b
            rest = guarded(sample_hdi, t, f)
            if isinstance(rest, Raised):
                rec.violation("raised", f"affine image raised {rest!r}", rec.context)
                continue
            tlo, thi = [float(v) for v in np.asarray(rest)]
            mag = max(abs(a * lo + b), abs(a * hi + b), abs(b), np.abs(t).max())
            tol = 16 * np.spacing(mag)
            rec.check(abs((thi - tlo) - a * (hi - lo)) <= tol * 2, "affine-width",
                      lambda: f"width {thi - tlo!r} of a*s+b differs from a*width = {a * (hi - lo)!r}", rec.context)
            # end points are compared only when the best window is unique by a clear margin
            s = np.sort(raw)
            k = int(((s >= lo) & (s <= hi)).sum())
            k_min = int(Fraction(f) * n) + 1  # fewest points that reach the fraction
            unique_best = True
            for m in range(min(k_min, n), min(max(k, int(f * n) + 1), n) + 1):   # every window size the routine may have used
                order = np.sort(s[m - 1:] - s[: n - m + 1])
                if order.size > 1 and (order[1] - order[0]) * a <= 8 * tol:
                    unique_best = False
            if unique_best:
                rec.count("affine_endpoint_comparisons")
                rec.check(abs(tlo - (a * lo + b)) <= tol and abs(thi - (a * hi + b)) <= tol, "affine-endpoints",
                          lambda: f"a*s+b gave ({tlo!r}, {thi!r}), expected ({a * lo + b!r}, {a * hi + b!r})", rec.context)

    rec.count("post:sample_hdi", att.calls)
    att.detach()
