"""Worker entry point:  python -m vmon.worker <prop> <job.json> <out.json>"""
import importlib
import json
import sys
import time
import traceback


def main():
    prop, job_path, out_path = sys.argv[1:4]
    from vmon.boot import boot

    boot()
    from vmon.rec import Rec, dump

    with open(job_path) as f:
        job = json.load(f)
    rec = Rec(job)
    t0 = time.time()
    cov = None
    import os as _os

    if _os.environ.get("VERIF_COVER_DIR"):
        # development aid (tools/reach): which lines of the tree under test the workload executes; never part of a verdict
        try:
            import coverage
            from vmon.boot import repo_path as _rp

            cov = coverage.Coverage(data_file=_os.path.join(_os.environ["VERIF_COVER_DIR"], "cov"), data_suffix=True,
                                    include=[_os.path.join(_rp(), "inference", "*")])
            cov.start()
        except Exception:  # noqa: BLE001
            cov = None
    try:
        mod = importlib.import_module(f"vmon.props.{prop.lower()}")
        mod.run_job(job, rec)
    except Exception as exc:
        # Monitors catch the exceptions they expect.  One that escapes is judged by
        # where it was raised: inside the tree under test -> the library failed on an
        # input of the property's class (violation, mechanism "unexpected-exception");
        # inside the harness -> harness fault, inconclusive.
        import os
        from vmon.boot import repo_path

        rp = repo_path() + os.sep
        frames = traceback.extract_tb(exc.__traceback__)
        in_repo = [f for f in frames if os.path.realpath(f.filename).startswith(rp)]
        text = traceback.format_exc()[-1800:]
        if in_repo:
            where = f"{os.path.relpath(in_repo[-1].filename, rp)}:{in_repo[-1].name}"
            rec.violation(
                "unexpected-exception",
                f"{type(exc).__name__} raised in {where}: {exc}",
                {"traceback": text, "context": getattr(rec, "context", None)},
            )
        else:
            rec.inconclusive_because("harness exception: " + text)
    if cov is not None:
        cov.stop()
        cov.save()
    out = rec.to_dict()
    out["wall_s"] = time.time() - t0
    dump(out_path, out)


if __name__ == "__main__":
    main()
