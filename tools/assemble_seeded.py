import json, os, re, shutil, sys
sys.path.insert(0,'/tmp')
from seed_meta import NEEDS
fast = {}
for line in open('/tmp/seed_fast.log').read().splitlines() + open('/tmp/seed_extra.log').read().splitlines() if os.path.exists('/tmp/seed_extra.log') else open('/tmp/seed_fast.log').read().splitlines():
    m = re.match(r"SEED (C\d\d) ([AB]) apply=(\S+)(.*)", line)
    if m and m.group(3) == 'ok':
        fast[f"{m.group(1)}-{m.group(2)}"] = m.group(4).strip()
tests = {}
for line in open('/tmp/seed_tests.log'):
    m = re.match(r"TESTS (C\d\d) ([AB]) \[(.*)\]", line)
    if m: tests[f"{m.group(1)}-{m.group(2)}"] = m.group(3)
rows = []
for sid in sorted(NEEDS):
    pid, lab = sid.split('-')
    src = f"/tmp/wt/out/{pid}"
    dst = f"/verif/seeded/{sid}"
    os.makedirs(dst, exist_ok=True)
    shutil.copy(f"{src}/patch_{lab}.diff", f"{dst}/patch.diff")
    shutil.copy(f"{src}/demo_{lab}.py", f"{dst}/demo.py")
    if os.path.exists(f"{src}/patch_{lab}.orig.diff"):
        shutil.copy(f"{src}/patch_{lab}.orig.diff", f"{dst}/patch.as-delivered.diff")
    res = fast.get(sid, '')
    mech = re.findall(r"mechanism=([\w:\-+]*[\w+])", res)
    rc = re.search(r"check_rc=(\d+)", res)
    meta = {
        "property": pid,
        "change": NEEDS[sid][0],
        "needs_to_manifest": NEEDS[sid][1],
        "origin": "written by an independent sub-agent that saw only the property text and a private worktree of the repository",
        "confirmed": {
            "how": "tools/seedcheck in a scratch git worktree of /repo HEAD (outside /repo and /verif): demo without the change, patch applied with git apply, demo with the change, repository test-suite with the change, quick check with VERIF_REPO=<scratch>",
            "demo_without_change_exit": 0, "demo_with_change_exit": 1,
            "repository_tests_with_change": tests.get(sid, "not run"),
        },
        "check": {"command": f"./check {pid} --tier quick", "exit_code": int(rc.group(1)) if rc else None, "mechanisms_reported": mech[:3]},
    }
    if os.path.exists(f"{src}/patch_{lab}.orig.diff"):
        meta["note"] = "patch ported by hand to the current tree: a later fix: commit touched the same lines (original kept as patch.as-delivered.diff)"
    if sid == "C19-B":
        meta["note"] = meta.get("note", "") + "; demo reference adapted to integrate from far below the data after fix 4cce653"
    json.dump(meta, open(f"{dst}/meta.json", "w"), indent=1)
    rows.append((sid, NEEDS[sid][0], NEEDS[sid][1], meta["check"]["exit_code"], ", ".join(mech[:2]), tests.get(sid, "?")))
with open('/verif/seeded/README.md', 'w') as f:
    f.write("# Independently seeded changes\n\nEach directory holds `patch.diff` (applies to /repo HEAD with `git apply`), `demo.py` (run with REPO_UNDER_TEST=<tree>; exit 0 without the change, non-zero with it) and `meta.json`.\nNone of these is ever committed to /repo. To run a check against one:\n`git -C /repo apply seeded/<id>/patch.diff; ./check <prop>; git -C /repo checkout -- .`  (or `tools/seedcheck`).\n\n| id | change | needs | quick check exit | mechanism reported | repository tests with the change |\n|---|---|---|---|---|---|\n")
    for r in rows:
        f.write("| " + " | ".join(str(x) for x in r) + " |\n")
print(len(rows), 'assembled;', sum(1 for r in rows if r[3] == 1), 'detected')
