"""Statistical oracles with an explicit false-alarm budget.

Every statistical verdict is two-stage: a first-stage exceedance (p < ALPHA1)
triggers an independent repetition with a fresh seed and a 4x larger sample;
only a repeated exceedance (p < ALPHA2) is a violation.  Under the null the
false-alarm probability per test is ALPHA1*ALPHA2 = 1e-11, so even 1e4 tests per
run stay below 1e-6 family-wise.  A real defect shifts the statistic by a fixed
effect size, so its p-value collapses further in the larger second stage.
"""
import numpy as np

ALPHA1 = 1e-4
ALPHA2 = 1e-7


def ks_uniform_p(u):
    from scipy import stats

    u = np.asarray(u, dtype=float)
    if u.size == 0:
        return 1.0
    return float(stats.kstest(u, "uniform").pvalue)


def z_to_p(z):
    from scipy import stats

    return float(2 * stats.norm.sf(abs(z)))


def chi2_p(obs, exp):
    from scipy import stats

    obs = np.asarray(obs, dtype=float)
    exp = np.asarray(exp, dtype=float)
    keep = exp > 0
    if (obs[~keep] > 0).any():
        return 0.0
    stat = ((obs[keep] - exp[keep]) ** 2 / exp[keep]).sum()
    return float(stats.chi2.sf(stat, df=max(keep.sum() - 1, 1)))


def two_stage(rec, key, pvalue_fn, n, msg, case=None, counter="stat_tests"):
    """pvalue_fn(n, stage) -> p-value computed from a fresh sample of size n.
    Returns True when the null survived."""
    rec.count(counter)
    p1 = pvalue_fn(n, 0)
    if not (p1 < ALPHA1):
        rec.counters["oracle_evaluations"] += 1
        return True
    rec.count(counter + ":second_stage")
    p2 = pvalue_fn(4 * n, 1)
    ok = not (p2 < ALPHA2)
    rec.check(ok, key, lambda: f"{msg() if callable(msg) else msg} (p={p1:.2e} with n={n}, then p={p2:.2e} with n={4 * n})", case)
    return ok
