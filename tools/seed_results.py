"""Merges a seedall log into seeded/RESULTS.log, the meta.json files and README.md."""
import json, os, re, sys
root = os.path.join(os.path.dirname(__file__), "..", "seeded")
res_path = f"{root}/RESULTS.log"
cur = {}
if os.path.exists(res_path):
    for line in open(res_path):
        m = re.match(r"SEED (C\d\d-\w) ", line)
        if m: cur[m.group(1)] = line.rstrip("\n")
for line in open(sys.argv[1]):
    m = re.match(r"SEED (C\d\d-\w) ", line)
    if m: cur[m.group(1)] = line.rstrip("\n")
open(res_path, "w").write("\n".join(cur[k] for k in sorted(cur)) + "\n")
os.remove(sys.argv[1])
rows = []
for sid in sorted(d for d in os.listdir(root) if re.match(r"C\d\d-\w$", d)):
    mp = f"{root}/{sid}/meta.json"
    meta = json.load(open(mp))
    line = cur.get(sid, "")
    g = lambda k: (re.search(k + r"=(\S+)", line) or [None, None])[1]
    if line:
        meta["confirmed"]["demo_without_change_exit"] = int(g("demo_clean"))
        meta["confirmed"]["demo_with_change_exit"] = int(g("demo_changed"))
        mech = re.findall(r"mechanism=([\w:\-+]*[\w+])", line)
        meta["check"] = {"command": f"./check {meta['property']} --tier quick", "exit_code": int(g("check_rc")), "mechanisms_reported": mech[:3]}
        json.dump(meta, open(mp, "w"), indent=1)
    ck = meta.get("check", {})
    rows.append((sid, meta["change"], meta["needs_to_manifest"], ck.get("exit_code"), ", ".join(ck.get("mechanisms_reported", [])[:2]),
                 meta["confirmed"].get("repository_tests_with_change", "?"), meta.get("note", "")))
with open(f"{root}/README.md", "w") as f:
    f.write("# Independently seeded changes\n\nEach directory holds `patch.diff` (applies to /repo HEAD with `git apply`), `demo.py` (run with REPO_UNDER_TEST=<tree>; "
            "exit 0 without the change, non-zero with it) and `meta.json`.\nNone of these is ever committed to /repo. To run a check against one:\n"
            "`git -C /repo apply seeded/<id>/patch.diff; ./check <prop>; git -C /repo checkout -- .`  (or `tools/seedcheck seeded/<id> <prop> x`; `tools/seedall` re-runs all of them "
            "and rewrites this table and `RESULTS.log`).\n\nLabels A, B: first wave; C, D: second wave; E, F: third wave; G, H: fourth wave; I, J: fifth wave; K, L: sixth wave; M, N: seventh wave (each wave was told what the earlier ones had done, to force different mechanisms).\n\n"
            "| id | change | needs | quick check exit | mechanism reported | repository tests with the change | note |\n|---|---|---|---|---|---|---|\n")
    for r in rows:
        f.write("| " + " | ".join(str(x) for x in r) + " |\n")
det = sum(1 for r in rows if r[3] == 1)
print(len(rows), "seeded changes;", det, "detected;", [r[0] for r in rows if r[3] != 1])
