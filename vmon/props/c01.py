"""C01 - MCMC samplers draw from the posterior the user supplied.

Three layers, all observing real sampler runs (one take_step / advance(1) at a time):
 1. decision ledger   every accept/reject decision is rebuilt from the posterior-call trace
                      (vmon.ledger) and judged: uphill moves are always accepted (exact);
                      downhill moves are accepted with the Metropolis-Hastings probability of
                      the move proposed (martingale z-test, overall and in strata of p);
 2. proposals         1-D proposal kernels are tested for reversibility between frozen states;
                      stretch factors must lie in [1/a, a], follow g(z) ~ z^-1/2 and use a
                      uniformly chosen partner; HMC momenta are fresh per attempt and ~ N(0, M);
 3. distribution      attempt-weighted chain statistics against targets of known law in the
                      regimes where the weights are exact (see DESIGN.md section 4.2).
Statistical verdicts are two-stage (vmon.stats): p < 1e-4, then p < 1e-7 on a fresh 4x run.
"""
import numpy as np

from vmon.rec import digest, OnlyKeys
from vmon.util import mk_rng, guarded, Raised
from vmon import mc, stats as st
from vmon import ledger as lg

ID = "C01"
RULE = (
    "seeded sampler configurations: Metropolis, Gibbs, PCA, Hamiltonian (scalar/vector/matrix mass, bounded/unbounded) and "
    "ensemble samplers on correlated Gaussian, banana, product-Gaussian, gamma and truncated-normal targets; 1-5 dimensions; "
    "proposal widths 0.1x..10x the target scale; starts in the bulk and in the tails; temperatures 1 / 2.5 / 7; tempering ladders sorted and "
    "unsorted; bounded samplers are also watched for evaluations outside their bounds (before and after a mid-run save / load); every "
    "accept/reject decision of 2e3-4e4 steps per configuration is one monitored event; non-trivial = configuration with "
    ">= 500 decoded downhill decisions (ledger) or >= 2000 weighted samples (distribution); distinct = distinct configuration"
)
ASSUMPTIONS = [
    "numpy generators and scipy.stats reference CDFs are trusted",
    "finite-run statistical statements: first-stage threshold p < 1e-4 per statistic, confirmation p < 1e-7 on an independent 4x longer run",
    "attempt weights are exact for single-block samplers and per coordinate for product targets (DESIGN.md 4.2); the unweighted jump-chain bias is a recorded known finding",
]
TIMEOUT = {"quick": 400, "thorough": 2400}
REQUIRED = {"ledger:events": 200000, "ledger:downhill": 60000, "ledger:uphill": 30000, "ledger:configs": 14, "dist:configs": 10,
            "proposal:kernel_tests": 12, "ensemble:stretch_factors": 5000, "hmc:attempts": 2000, "stat_tests": 60, "pt:exchange_decisions": 300, "ledger:reloads": 6}

Z1 = 3.89   # two-sided p = 1e-4
Z2 = 5.33   # two-sided p = 1e-7


# ------------------------------------------------------------------ configurations
def jobs(tier, seed):
    q = tier == "quick"
    cfgs = []

    def L(kind, **kw):
        cfgs.append({"mode": "ledger", "kind": kind, "steps": kw.pop("steps", 6000 if q else 30000), **kw})

    def D(kind, **kw):
        cfgs.append({"mode": "dist", "kind": kind, "steps": kw.pop("steps", 20000 if q else 100000), **kw})

    # decision ledgers
    L("metropolis", d=2, target="gauss", T=1.0, wf=1.0)
    L("metropolis", d=3, target="banana", T=2.5, wf=0.5, reload=True)
    L("gibbs", d=1, target="gauss", T=1.0, wf=3.0)
    L("gibbs", d=3, target="gauss", T=1.0, wf=1.0)
    L("gibbs", d=2, target="banana", T=7.0, wf=0.3, reload=True)
    L("gibbs", d=3, target="gauss", T=2.5, wf=5.0, limits="boundaries", offset=-1e4)
    L("gibbs", d=2, target="gamma", T=1.0, wf=1.0, limits="nonneg")
    L("pca", d=3, target="gauss", T=1.0, wf=1.0)
    L("pca", d=2, target="banana", T=2.5, wf=0.5, offset=3e5)
    L("pca", d=3, target="gauss", T=1.0, wf=3.0, bounded=True, reload=True)
    L("hmc", d=3, target="gauss", T=1.0, mass="default", steps=1200 if q else 6000)
    L("hmc", d=2, target="banana", T=2.5, mass="vector", steps=1200 if q else 6000, offset=-1e6)
    L("hmc", d=3, target="gauss", T=1.0, mass="matrix", steps=1200 if q else 6000)
    L("hmc", d=2, target="gauss", T=7.0, mass="vector", bounded=True, steps=1200 if q else 6000, reload=True)
    L("ensemble", d=2, target="gauss", alpha=2.0, steps=500 if q else 2500)
    L("ensemble", d=3, target="gauss", alpha=2.5, steps=400 if q else 2000, max_attempts=2)   # walkers often exhaust their attempts and must stay put
    L("ensemble", d=4, target="gauss", alpha=3.5, steps=400 if q else 2000, offset=-1e5)
    L("ensemble", d=3, target="banana", alpha=1.4, steps=400 if q else 2000, reload=True)
    # distribution level (regimes with exact attempt weights)
    D("metropolis", d=1, target="normal", T=1.0, wf=2.4)
    D("metropolis", d=2, target="normal", T=2.5, wf=1.0, offset=-3e6)
    D("gibbs", d=1, target="normal", T=1.0, wf=2.4)
    D("gibbs", d=1, target="normal", T=7.0, wf=0.5, reload=True)
    D("gibbs", d=1, target="gamma", T=1.0, wf=1.0, limits="nonneg")
    D("gibbs", d=1, target="truncnorm", T=1.0, wf=2.0, limits="boundaries")
    D("gibbs", d=3, target="normal", T=1.0, wf=1.5)
    D("pca", d=1, target="normal", T=2.5, wf=2.0, reload=True)
    D("hmc", d=2, target="normal", T=1.0, mass="default", steps=2500 if q else 12000)
    D("hmc", d=2, target="normal", T=2.5, mass="vector", steps=2500 if q else 12000, offset=2e4)
    D("hmc", d=2, target="normal", T=1.0, mass="matrix", steps=2500 if q else 12000)
    D("hmc", d=1, target="truncnorm", T=1.0, mass="vector", bounded=True, steps=2500 if q else 12000)
    D("hmc", d=1, target="truncnorm", T=7.0, mass="vector", bounded=True, steps=2500 if q else 12000, reload=True)
    D("hmc", d=2, target="truncnorm", T=2.5, mass="default", bounded=True, steps=2500 if q else 12000)
    D("ensemble", d=2, target="normal", alpha=2.0, steps=1500 if q else 8000)
    D("ensemble", d=3, target="normal", alpha=3.0, steps=1200 if q else 6000)
    if not q:
        L("gibbs", d=5, target="gauss", T=1.0, wf=10.0)
        L("gibbs", d=2, target="gauss", T=1.0, wf=0.1, tail_start=True)
        L("metropolis", d=4, target="gauss", T=7.0, wf=0.2, tail_start=True)
        L("pca", d=5, target="gauss", T=7.0, wf=0.3)
        L("hmc", d=5, target="gauss", T=2.5, mass="scalar", steps=4000)
        L("ensemble", d=5, target="gauss", alpha=2.0, bounded=True, steps=1500)
        D("gibbs", d=2, target="normal", T=2.5, wf=4.0)
        D("metropolis", d=1, target="normal", T=7.0, wf=0.3)
        D("pca", d=1, target="normal", T=1.0, wf=0.5)
        D("hmc", d=3, target="normal", T=7.0, mass="scalar", steps=10000)
    out = [{"name": f"{c['mode']}-{c['kind']}-{i}", "seed": seed, "i": i, **c} for i, c in enumerate(cfgs)]
    for k, (n_ch, ladder) in enumerate([(2, "wide"), (3, "tight"), (4, "wide-unsorted"), (3, "tight-unsorted")] + ([] if q else [(5, "tight"), (3, "wide"), (5, "tight-unsorted")])):
        out.append({"name": f"pt-exchange-{k}", "seed": seed, "i": len(out), "mode": "pt", "kind": "tempering", "n": n_ch, "ladder": ladder,
                    "rounds": 150 if q else 700})
    out.append({"name": "proposal-kernels", "seed": seed, "i": len(out), "mode": "proposal", "kind": "parameter", "n": 40000 if q else 200000})
    return out


# ------------------------------------------------------------------ targets
class ProductNormal:
    def __init__(self, mu, sd):
        self.mu, self.sd = np.asarray(mu, float), np.asarray(sd, float)

    def __call__(self, t):
        return float(-0.5 * np.sum(((np.asarray(t, float) - self.mu) / self.sd) ** 2))

    def grad(self, t):
        return -(np.asarray(t, float) - self.mu) / self.sd**2


class Gamma1D:
    def __init__(self, k, scale):
        self.k, self.scale = k, scale

    def __call__(self, t):
        z = abs(float(np.asarray(t).ravel()[0])) / self.scale + 1e-300
        return float((self.k - 1) * np.log(z) - z)


def make_target(job, rng):
    tgt, sc, law = _make_target(job, rng)
    if job.get("offset"):
        # the same density with a constant added to its logarithm (what a real log-likelihood looks like)
        tgt = mc.OffsetTarget(tgt, job["offset"])
    return tgt, sc, law


def _make_target(job, rng):
    d, name = job["d"], job["target"]
    if name == "gauss":
        A = rng.normal(size=(d, d))
        C = A @ A.T / d + 0.4 * np.eye(d)
        s = np.sqrt(np.diag(C))
        return mc.GaussTarget(rng.normal(size=d), C), s, None
    if name == "banana":
        return mc.BananaTarget(b=0.3), np.array([2.0, 1.5] + [1.0] * (d - 2)), None
    if name == "gamma" and job["mode"] == "ledger":
        return mc.GammaTarget(rng.uniform(2, 5, size=d), rng.uniform(0.5, 2, size=d)), np.full(d, 2.0), None
    if name == "normal":
        mu = rng.normal(size=d) * 2
        sd = 10.0 ** rng.uniform(-0.5, 0.5, size=d)
        return ProductNormal(mu, sd), sd, ("normal", mu, sd)
    if name == "gamma":
        k, sc = float(rng.uniform(2, 5)), float(rng.uniform(0.5, 2))
        return Gamma1D(k, sc), np.array([np.sqrt(k) * sc]), ("gamma", k, sc)
    if name == "truncnorm":
        mu, sd = rng.normal(size=d), np.full(d, 1.0)
        return ProductNormal(mu, sd), sd, ("truncnorm", mu, sd)
    raise ValueError(name)


def build_chain(job, rng, trace, target, scale, law, seed):
    from inference.mcmc import GibbsChain, PcaChain, HamiltonianChain, EnsembleSampler
    from inference.mcmc.gibbs import MetropolisChain

    kind, d, T = job["kind"], job["d"], job.get("T", 1.0)
    centre = getattr(target, "mu", np.zeros(d))
    if job["target"] in ("gamma",):
        centre = np.full(d, 2.0)
    start = centre + scale * (rng.normal(size=d) * 0.3 + (3.0 if job.get("tail_start") else 0.0))
    if job.get("limits") == "nonneg" or job["target"] == "gamma":
        start = np.abs(start) + 0.1
    lo, hi = None, None
    if job.get("bounded") or job.get("limits") == "boundaries":
        lo = centre - scale * np.sqrt(T) * rng.uniform(0.4, 1.8, size=d)
        hi = centre + scale * np.sqrt(T) * rng.uniform(0.4, 1.8, size=d)
        start = lo + (hi - lo) * rng.uniform(0.2, 0.8, size=d)
    info = {"lo": lo, "hi": hi}
    if kind in ("gibbs", "metropolis", "pca"):
        w = scale * job.get("wf", 1.0) * np.sqrt(T)
        if kind == "pca":
            ch = PcaChain(posterior=trace, start=start, widths=w, temperature=T, bounds=(lo, hi) if lo is not None else None, display_progress=False)
        else:
            cls = GibbsChain if kind == "gibbs" else MetropolisChain
            ch = cls(posterior=trace, start=start, widths=w, temperature=T, display_progress=False)
            if job.get("limits") == "boundaries":
                for i in range(d):
                    ch.set_boundaries(i, (lo[i], hi[i]))
            if job.get("limits") == "nonneg":
                for i in range(d):
                    ch.set_non_negative(i, True)
    elif kind == "hmc":
        mk = job.get("mass", "default")
        if mk == "default":
            im, invM = None, np.eye(d)
        elif mk == "scalar":
            v = float(np.mean(scale**2) * T)
            im, invM = v, np.eye(d) * v
        elif mk == "vector":
            im = scale**2 * T * rng.uniform(0.7, 1.4, size=d)
            invM = np.diag(im)
        else:
            # strongly non-diagonal: correlation +-0.8 between every pair, so that a wrong factor of the mass
            # matrix (momenta not matching the kinetic energy) visibly distorts the sampled distribution
            sg = rng.choice([-1.0, 1.0], size=d)
            R = (0.2 * np.eye(d) + 0.8 * np.ones((d, d))) * sg[:, None] * sg[None, :]
            im = np.diag(scale) @ R @ np.diag(scale) * T * rng.uniform(0.7, 1.4)
            im = 0.5 * (im + im.T)
            invM = im
        info["invM"] = invM
        kw = dict(posterior=trace, start=start, grad=target.grad, temperature=T, epsilon=0.2, display_progress=False,
                  bounds=(lo, hi) if lo is not None else None)
        if im is not None:
            kw["inverse_mass"] = im
        ch = HamiltonianChain(**kw)
    else:
        nw = max(2 * d + 2, 8)
        pos = centre[None, :] + rng.normal(size=(nw, d)) * scale
        if lo is not None:
            pos = lo + (hi - lo) * rng.uniform(0.05, 0.95, size=(nw, d))
        ch = EnsembleSampler(posterior=trace, starting_positions=pos, alpha=job.get("alpha", 2.0),
                             bounds=(lo, hi) if lo is not None else None, display_progress=False)
        if job.get("max_attempts"):
            ch.max_attempts = int(job["max_attempts"])     # public setting (saved with the sampler)
    mc.seed_sampler(ch, seed)
    return ch, info


# ------------------------------------------------------------------ one run of one configuration
def run_config(job, rng, n_steps, rec, hooks):
    """Returns dict with ledger, weights/values for the distribution layer, extras."""
    kind, d, T = job["kind"], job["d"], job.get("T", 1.0)
    target, scale, law = make_target(job, rng)
    trace = mc.Traced(target)
    ch, info = build_chain(job, rng, trace, target, scale, law, int(rng.integers(2**31)))
    led = lg.Ledger()
    owner_log, leap_log = hooks["owners"], hooks["leaps"]
    pid = {id(p): i for i, p in enumerate(getattr(ch, "params", []) or [])}
    trace.reset()
    del owner_log[:]
    del leap_log[:]
    zs, offs = [], []
    coord_vals = [[] for _ in range(d)]
    coord_w = [[] for _ in range(d)]
    states, weights = [], []
    momenta = []
    burn = n_steps // 10
    if kind == "ensemble":
        ens_vals, ens_w = [], []
    def in_box(pts_):
        # with bounds the target is the user's density restricted to the box: every point the sampler asks about lies inside
        lo, hi = info["lo"], info["hi"]
        if lo is not None and len(pts_):
            P = np.asarray(pts_, float).reshape(len(pts_), -1)
            out = (P < lo - 1e-12 * np.abs(lo)) | (P > hi + 1e-12 * np.abs(hi))
            rec.count("ledger:points_checked_against_bounds", len(pts_))
            if out.any() and not rec.counters.get("violations:left-the-bounds"):
                k_ = int(np.nonzero(out.any(axis=1))[0][0])
                rec.violation("left-the-bounds", f"{job['name']}: step {step}: the sampler evaluated the log-density at {P[k_]} outside its bounds [{lo}, {hi}] "
                              "(it no longer samples the density restricted to the bounds)", {**{k: v for k, v in job.items() if k != 'seed'}, "step": step})

    for step in range(n_steps):
        if job.get("reload") and step == n_steps // 3:
            # the run is interrupted: the sampler is saved, re-loaded from the file (with its generator states) and the run goes on
            # with the copy; the temperature the decisions are judged at stays the one the user constructed the sampler with
            import os
            import tempfile

            fd, path = tempfile.mkstemp(suffix=".npz", prefix="c01-")
            os.close(fd)
            try:
                ch.save(path)
                st_ = mc.rng_states(ch)
                kwl = {"posterior": trace}
                if kind == "hmc":
                    kwl["grad"] = target.grad
                ch = type(ch).load(path, **kwl)
                mc.set_rng_states(ch, st_)
            finally:
                try:
                    os.remove(path)
                except OSError:
                    pass
            pid = {id(p): i for i, p in enumerate(getattr(ch, "params", []) or [])}
            trace.reset()
            del owner_log[:]
            del leap_log[:]
            rec.count("ledger:reloads")
        if kind == "ensemble":
            Xb, Lb = ch.walker_positions.copy(), ch.walker_probs.copy()
            ch.advance(1)
            pts, vals = trace.points, trace.values
            in_box(pts)
            ok = lg.decode_ensemble_iteration(led, Xb, Lb, ch.walker_positions.copy(), pts, vals, ch.alpha, ch.max_attempts, zs, offs,
                                              bounded=info["lo"] is not None)
            if not ok:
                led.undecodable += len(vals)
            if step >= burn:
                # weight of the state a walker leaves = proposals it needed in this iteration
                for i in range(ch.n_walkers):
                    ens_vals.append(Xb[i].copy())
                    ens_w.append(ch.total_proposals[i][-1])
            trace.reset()
            continue
        cur = np.array(ch.get_last(), float)
        Lc = target(cur) / T
        ch.take_step()
        pts, vals = trace.points, trace.values
        in_box(pts)
        if kind == "hmc":
            att = [(a[0], a[1], a[2], a[3]) for a in leap_log]
            for a in leap_log:
                momenta.append(a[1])
            lg.decode_hmc(led, att, vals, T, info["invM"], target)
            del leap_log[:]
            n_att = len(vals)
            if step >= burn:
                states.append(cur)
                weights.append(n_att)
        elif kind == "metropolis" or d == 1:
            lg.decode_single_block(led, cur, Lc, pts, vals, T)
            if step >= burn:
                states.append(cur)
                weights.append(len(vals))
        else:
            owners = [pid.get(o, -1) for o, _ in owner_log]
            out = lg.decode_blocks(led, cur, Lc, pts, vals, owners, T, check_single_coordinate=(kind == "gibbs"))
            if out is not None and step >= burn and kind == "gibbs":
                _, per = out
                for i in range(d):
                    coord_vals[i].append(cur[i])
                    coord_w[i].append(per.get(i, 0))
        del owner_log[:]
        trace.reset()
    res = {"ledger": led, "law": law, "T": T, "info": info, "zs": zs, "offsets": offs, "momenta": momenta, "chain": ch}
    if kind == "ensemble":
        res["states"], res["weights"] = np.array(ens_vals), np.array(ens_w, float)
        res["n_walkers"] = ch.n_walkers
    elif kind == "gibbs" and d > 1:
        res["coord_vals"], res["coord_w"] = [np.array(v) for v in coord_vals], [np.array(w, float) for w in coord_w]
    else:
        res["states"], res["weights"] = np.array(states), np.array(weights, float)
    res["unweighted"] = np.asarray(ch.get_sample(burn=burn + 1, thin=1), float) if kind != "ensemble" else np.asarray(ch.get_sample(burn=burn * ch.n_walkers), float)
    return res


# ------------------------------------------------------------------ statistics of a weighted sample against a known law
def law_cdf(law, i, x, T, lo=None, hi=None):
    from scipy import stats as sst

    name = law[0]
    if name == "normal":
        return sst.norm.cdf(x, law[1][i], law[2][i] * np.sqrt(T))
    if name == "gamma":
        k, sc = law[1], law[2]
        # density ~ x^((k-1)/T) exp(-x/(sc T)): Gamma((k-1)/T + 1, sc T)
        return sst.gamma.cdf(x, (k - 1) / T + 1, scale=sc * T)
    if name == "truncnorm":
        m, s = law[1][i], law[2][i] * np.sqrt(T)
        a, b = (lo[i] - m) / s, (hi[i] - m) / s
        return sst.truncnorm.cdf(x, a, b, loc=m, scale=s)
    raise ValueError(name)


def law_moments(law, i, T, lo=None, hi=None):
    from scipy import stats as sst

    name = law[0]
    if name == "normal":
        return law[1][i], (law[2][i] ** 2) * T
    if name == "gamma":
        k, sc = law[1], law[2]
        a = (k - 1) / T + 1
        return a * sc * T, a * (sc * T) ** 2
    m, s = law[1][i], law[2][i] * np.sqrt(T)
    a, b = (lo[i] - m) / s, (hi[i] - m) / s
    return sst.truncnorm.mean(a, b, loc=m, scale=s), sst.truncnorm.var(a, b, loc=m, scale=s)


def weighted_z(x, w, law, i, T, lo, hi, n_batches=40):
    """z-scores (batch-means standard errors) of the attempt-weighted mean, variance and five CDF probabilities."""
    x, w = np.asarray(x, float), np.asarray(w, float)
    n = (x.size // n_batches) * n_batches
    if n < n_batches * 20:
        return {}
    x, w = x[:n], w[:n]
    mean_t, var_t = law_moments(law, i, T, lo, hi)
    u = law_cdf(law, i, x, T, lo, hi)
    feats = {"mean": x, "var": (x - mean_t) ** 2}
    truth = {"mean": mean_t, "var": var_t}
    for q in (0.1, 0.25, 0.5, 0.75, 0.9):
        feats[f"P(u<{q})"] = (u < q).astype(float)
        truth[f"P(u<{q})"] = q
    out = {}
    W = w.reshape(n_batches, -1)
    for name, f in feats.items():
        F = (w * f).reshape(n_batches, -1)
        # ratio estimator and its batch-means standard error (delta method)
        est = F.sum() / W.sum()
        resid = F.sum(axis=1) - est * W.sum(axis=1)
        se = np.sqrt(n_batches / (n_batches - 1) * (resid**2).sum()) / W.sum()
        out[name] = (float(est), float(truth[name]), float((est - truth[name]) / se) if se > 0 else 0.0)
    return out


# ------------------------------------------------------------------ job
def run_job(job, rec):
    from inference.mcmc.gibbs import Parameter
    from inference.mcmc import HamiltonianChain
    from vmon.contracts import attach

    rng = mk_rng(job["seed"], "C01", job["i"], job["name"])
    if job["mode"] == "pt":
        # (no class-level recorders here: the chains must stay picklable to cross the pipes)
        return tempering_exchanges(job, rec, rng)
    owner_log, leap_log = [], []
    attach(Parameter, "submit_accept_prob", pre=lambda self, p: owner_log.append((id(self), p)))

    def leap_rec(name):
        raw = HamiltonianChain.__dict__[name]

        def wrapper(self, t, r, n_steps):
            t0, r0 = np.array(t, float), np.array(r, float)
            out = raw(self, t, r, n_steps)
            leap_log.append((t0, r0, np.array(out[0], float), np.array(out[1], float), int(n_steps)))
            return out

        setattr(HamiltonianChain, name, wrapper)

    leap_rec("standard_leapfrog")
    leap_rec("bounded_leapfrog")
    hooks = {"owners": owner_log, "leaps": leap_log}
    ctx = {k: v for k, v in job.items() if k not in ("seed",)}
    rec.context = ctx

    if job["mode"] == "proposal":
        return proposal_kernels(job, rec, rng)
    n1 = job["steps"]
    res = guarded(run_config, job, rng, n1, rec, hooks)
    if isinstance(res, Raised):
        if isinstance(res.exc, mc.Stalled):
            rec.violation("step-never-accepts", f"{job['name']}: a single step proposed {res.exc} - the sampler cannot leave its current state", ctx)
        else:
            rec.violation("raised", f"{job['kind']}: sampling raised {res!r}", ctx)
        return
    led = res["ledger"]
    info, zs = led.calibration()
    rec.count("ledger:events", led.events)
    rec.count("ledger:downhill", info["n_downhill"])
    rec.count("ledger:uphill", info["n_uphill"])
    rec.count("ledger:undecodable", led.undecodable)
    rec.count(("ledger" if job["mode"] == "ledger" else "dist") + ":configs")
    rec.case(digest(sorted((k, str(v)) for k, v in ctx.items())), nontrivial=info["n_downhill"] >= 500)
    rec.sample({**ctx, **info, "undecodable": led.undecodable})
    rec.note("calibration", {"config": job["name"], **info, "z": [(n, round(z, 2)) for n, z, _ in zs], "undecodable": led.undecodable})
    if led.undecodable > 0.02 * max(led.events, 1) + 5:
        rec.inconclusive_because(f"{job['name']}: {led.undecodable} of {led.events + led.undecodable} evaluations could not be decoded")

    confirm = None

    def second_run():
        nonlocal confirm
        if confirm is None:
            confirm = run_config(job, mk_rng(job["seed"], "C01-confirm", job["i"]), 4 * n1, rec, hooks)
        return confirm

    # ---- layer 1a: uphill moves are always accepted (exact)
    rec.check(len(led.uphill_rejected) == 0, "uphill-move-rejected",
              lambda: f"{job['kind']}: {len(led.uphill_rejected)} proposals with a higher tempered log-density (MH probability 1) were rejected; first: {led.uphill_rejected[0]}", ctx)
    # ---- layer 1b: downhill acceptance is calibrated
    for name, z, n in zs:
        def pv(nn, stage, name=name, z=z):
            if stage == 0:
                return st.z_to_p(z)
            _, zs2 = second_run()["ledger"].calibration()
            z2 = dict((a, b) for a, b, _ in zs2).get(name)
            return 1.0 if z2 is None else st.z_to_p(z2)

        st.two_stage(rec, "acceptance-miscalibrated", pv, n,
                     lambda name=name, z=z: f"{job['name']}: accept decisions deviate from the Metropolis-Hastings probability of the proposed move "
                                            f"(stratum {name}: z = {z:.2f} over {n} decisions; acceptance {info.get('acceptance_rate', 0):.3f} vs expected {info.get('mean_reference_probability', 0):.3f})", ctx)

    # ---- layer 2: ensemble stretch move
    if job["kind"] == "ensemble":
        a = job.get("alpha", 2.0)
        z_arr = np.asarray(res["zs"], float)
        rec.count("ensemble:stretch_factors", z_arr.size)
        if z_arr.size:
            bad = (z_arr < 1 / a * (1 - 1e-9)) | (z_arr > a * (1 + 1e-9))
            rec.check(not bad.any(), "stretch-factor-out-of-range",
                      lambda: f"{int(bad.sum())} of {z_arr.size} stretch factors recovered from Y = X_j + z (X_i - X_j) lie outside [1/a, a] = [{1 / a:.3f}, {a:.3f}]; e.g. {z_arr[bad][:3]}", ctx)
            # with bounds, reflected proposals hide their stretch factor: the decodable ones are a biased subset,
            # so the law of z and of the partner is judged on unbounded runs only
            unbounded = res["info"]["lo"] is None
            if not bad.any() and unbounded:
                def pvz(nn, stage):
                    zz = z_arr if stage == 0 else np.asarray(second_run()["zs"], float)
                    u = (np.sqrt(zz) - 1 / np.sqrt(a)) / (np.sqrt(a) - 1 / np.sqrt(a))
                    return st.ks_uniform_p(u[:: max(1, zz.size // 20000)])

                st.two_stage(rec, "stretch-factor-law", pvz, z_arr.size, f"stretch factors do not follow g(z) ~ z^-1/2 on [1/a, a] (a = {a})", ctx)
            nw = res["n_walkers"]

            def pvo(nn, stage):
                if not unbounded:
                    return 1.0
                oo = np.asarray(res["offsets"] if stage == 0 else second_run()["offsets"], int)
                obs = np.bincount(oo, minlength=nw)[1:nw]
                return st.chi2_p(obs, np.full(nw - 1, obs.sum() / (nw - 1)))

            st.two_stage(rec, "partner-not-uniform", pvo, len(res["offsets"]), "the partner walker of the stretch move is not chosen uniformly among the other walkers", ctx)

    # ---- layer 2: HMC momenta are fresh and ~ N(0, M)
    if job["kind"] == "hmc":
        R = np.asarray(res["momenta"], float)
        rec.count("hmc:attempts", R.shape[0])
        if R.shape[0] > 200:
            rec.check(np.unique(R, axis=0).shape[0] == R.shape[0], "momentum-not-refreshed", "the same momentum was used for more than one trajectory", ctx)

            def pvm(nn, stage):
                rr = res if stage == 0 else second_run()   # each run has its own (random) mass
                RR = np.asarray(rr["momenta"], float)
                Cm = np.linalg.cholesky(np.linalg.inv(rr["info"]["invM"]))
                U = np.linalg.solve(Cm, RR.T).T
                n, dd = U.shape
                ps = []
                for i in range(dd):
                    ps.append(st.z_to_p(((U[:, i] ** 2).sum() - n) / np.sqrt(2 * n)))
                    ps.append(st.z_to_p(U[:, i].sum() / np.sqrt(n)))
                    for j in range(i + 1, dd):
                        ps.append(st.z_to_p((U[:, i] * U[:, j]).sum() / np.sqrt(n)))
                return float(min(1.0, min(ps) * len(ps)))

            st.two_stage(rec, "momentum-law", pvm, R.shape[0], "momenta drawn during sampling are not N(0, M) for the mass implied by the inverse mass passed", ctx)

    # ---- layer 3: attempt-weighted statistics against the known law
    if job["mode"] == "dist":
        slack = 0.03 if job["kind"] == "ensemble" else 0.0   # ensemble weights are approximate in theory (0.2% measured)

        def stats_of(r):
            # every run has its own randomly drawn target and box
            law, T = r["law"], r["T"]
            lo, hi = r["info"]["lo"], r["info"]["hi"]
            out = {}
            if "coord_vals" in r:
                for i in range(job["d"]):
                    for k, v in weighted_z(r["coord_vals"][i], r["coord_w"][i], law, i, T, lo, hi).items():
                        out[f"x{i}:{k}"] = v
            else:
                for i in range(job["d"]):
                    for k, v in weighted_z(r["states"][:, i], r["weights"], law, i, T, lo, hi).items():
                        out[f"x{i}:{k}"] = v
            return out

        s1 = stats_of(res)
        rec.note("weighted", {"config": job["name"], **{k: (round(v[0], 4), round(v[1], 4), round(v[2], 2)) for k, v in list(s1.items())[:7]}})
        for k, (est, tru, z) in s1.items():
            def pvw(nn, stage, k=k, z=z, est=est, tru=tru):
                if stage == 0:
                    zz, e, t = z, est, tru
                else:
                    e, t, zz = stats_of(second_run()).get(k, (0, 0, 0))
                if slack and abs(e - t) <= slack * max(abs(t), 1e-12 if "P(" not in k else 1.0) + (slack * 0.5 if k.endswith("mean") else 0):
                    return 1.0
                return st.z_to_p(zz)

            st.two_stage(rec, "distribution-wrong", pvw, job["steps"],
                         lambda k=k, est=est, tru=tru, z=z: f"{job['name']}: attempt-weighted {k} = {est:.5g} but the target (to the power 1/T) has {tru:.5g} (z = {z:.1f})", ctx)
        # the unweighted chain: known finding (retry-until-accept stores the jump chain)
        if job["kind"] != "ensemble" and "states" in res and job["d"] >= 1:
            x = res["unweighted"][:, 0]
            zu = weighted_z(x, np.ones_like(x), res["law"], 0, res["T"], res["info"]["lo"], res["info"]["hi"]).get("var")
            zw = s1.get("x0:var")
            if zu and zw and abs(zu[2]) > 7 and abs(zw[2]) < Z1:
                rec.violation("retry-until-accept-jump-chain-bias",
                              f"{job['name']}: variance of the returned samples {zu[0]:.4f} vs target {zu[1]:.4f} (z = {zu[2]:.1f}); weighting each sample by the "
                              f"attempts spent leaving it gives {zw[0]:.4f} (z = {zw[2]:.1f})", ctx)


# ------------------------------------------------------------------ 1-D proposal kernels between frozen states
def proposal_kernels(job, rec, rng):
    from inference.mcmc.gibbs import Parameter

    n = job["n"]
    for case in range(14):
        kind = ["standard", "abs", "boundary", "boundary_nonneg"][case % 4]
        sigma = 10.0 ** rng.uniform(-2, 2)
        box = None
        if kind == "standard":
            a = rng.normal() * 10 * sigma
            b = a + sigma * rng.uniform(-1.5, 1.5)
            lo, hi = -np.inf, np.inf
        elif kind == "abs":
            a, b = sigma * rng.uniform(0.3, 1.5), sigma * rng.uniform(0.3, 1.5)   # balls of radius h stay inside the support
            lo, hi = 0.0, np.inf
        else:
            w = sigma * rng.uniform(0.3, 3)
            raw_lo = rng.normal() * 5 * sigma if kind == "boundary" else -w * rng.uniform(0.1, 0.9)
            hi = raw_lo + w
            box = (raw_lo, hi)
            lo = max(raw_lo, 0.0) if kind == "boundary_nonneg" else raw_lo   # limits in force: the intersection
            a, b = lo + (hi - lo) * rng.uniform(0.15, 0.85, size=2)   # balls of radius h = 0.1 width stay inside the box
        h = 0.15 * sigma if np.isinf(hi) else min(0.15 * sigma, 0.1 * (hi - lo))
        ctx = {"kernel": kind, "sigma": sigma, "a": a, "b": b, "lower": lo, "upper": hi, "boundaries": box}
        rec.context = ctx

        def make(x0, kind=kind, box=box, sigma=sigma):
            p = Parameter(value=float(x0), sigma=float(sigma))
            p.max_tries = 10**12
            p.rng = np.random.default_rng(rng.integers(2**63))
            if box is not None:
                p.set_boundaries(box[0], box[1])
            if kind in ("abs", "boundary_nonneg"):
                p.non_negative = True
            return p

        def draws(x0, m):
            p = make(x0)
            return np.array([p.proposal() for _ in range(m)], float)

        first = guarded(draws, a, 8)
        if isinstance(first, Raised):
            rec.violation("raised", f"{kind} proposal raised {first!r}", ctx)
            continue
        rec.count("proposal:kernel_tests")
        rec.case(digest("kernel", kind, sigma, a, b), nontrivial=True)

        def pv(m, stage):
            ya, yb = draws(a, m), draws(b, m)
            if not (np.all(ya >= lo) and np.all(ya <= hi)):
                return 0.0
            ka, kb = int((np.abs(ya - b) < h).sum()), int((np.abs(yb - a) < h).sum())
            tot = ka + kb
            if tot < 50:
                return 1.0
            # q(a -> B_h(b)) = q(b -> B_h(a)) for a reversible (symmetric) kernel: two-sample binomial z
            z = (ka - kb) / np.sqrt(tot)
            return st.z_to_p(z)

        st.two_stage(rec, "proposal-not-reversible", pv, n,
                     lambda: f"{kind} proposal (sigma {sigma:.3g}): the probability of proposing b from a differs from that of proposing a from b", ctx)
        # detailed balance over the whole interval, not only between two frozen states: with the current value drawn
        # uniformly from an interval I, the pair (value, proposal) restricted to I x I has density q(x, y) / |I|, which is
        # symmetric under exchange iff the kernel is reversible; cell (i, j) and cell (j, i) must then be equally populated.
        # (pure reflection, pure wrapping, folding at zero are all symmetric; a mixture of rules on the two sides is not.)
        if np.isinf(hi):
            I_lo, I_hi = (0.0, 4 * sigma) if kind == "abs" else (a - 2.5 * sigma, a + 2.5 * sigma)
        else:
            I_lo, I_hi = lo, hi

        def pv_sym(m, stage, I_lo=I_lo, I_hi=I_hi):
            from scipy import stats as sst

            pp = make(a)
            xs = rng.uniform(I_lo, I_hi, size=m)
            ys = np.empty(m)
            for k in range(m):
                pp.samples[-1] = float(xs[k])
                ys[k] = pp.proposal()
            G_ = 12
            keep = (ys >= I_lo) & (ys <= I_hi)
            ci = np.minimum(((xs[keep] - I_lo) / (I_hi - I_lo) * G_).astype(int), G_ - 1)
            cj = np.minimum(((ys[keep] - I_lo) / (I_hi - I_lo) * G_).astype(int), G_ - 1)
            N = np.zeros((G_, G_))
            np.add.at(N, (ci, cj), 1)
            iu = np.triu_indices(G_, 1)
            up_, dn_ = N[iu], N.T[iu]
            ok_ = (up_ + dn_) >= 40
            if ok_.sum() < 5:
                return 1.0
            rec.count("proposal:symmetry_cells", int(ok_.sum()))
            stat = float(((up_[ok_] - dn_[ok_]) ** 2 / (up_[ok_] + dn_[ok_])).sum())
            return float(sst.chi2.sf(stat, int(ok_.sum())))

        rec.count("proposal:symmetry_tests")
        st.two_stage(rec, "proposal-not-reversible", pv_sym, 5 * n,
                     lambda: f"{kind} proposal (sigma {sigma:.3g}, limits [{lo:.4g}, {hi:.4g}]): with the current value uniform over an interval, the pairs (value, proposal) "
                             f"are not exchangeable - the proposal density is not symmetric", ctx)
        if kind == "standard":
            def pv2(m, stage):
                from scipy import stats as sst

                y = draws(a, m)
                return st.ks_uniform_p(sst.norm.cdf((y - a) / sigma))

            st.two_stage(rec, "proposal-scale", pv2, n, "standard proposal increments are not N(0, sigma^2)", ctx)


# ------------------------------------------------------------------ exchange decisions of chains run under parallel tempering
def tempering_exchanges(job, rec, rng):
    """Every proposed exchange of a real ParallelTempering run is one Metropolis-Hastings decision: probability
    min(1, exp((1/Ti - 1/Tj)(Lj - Li))) with L the untempered log-density of each chain's current point
    (harness's evaluation, from snapshots taken around every swap; machinery shared with C08)."""
    from vmon.props import c08

    def spec_for(seed_shift):
        r = mk_rng(job["seed"], "C01-pt", job["i"], seed_shift)
        sp = c08.make_spec(r, 0, 0)
        n = job["n"]
        fac = r.uniform(1.2, 1.8, size=n - 1) if job["ladder"].startswith("tight") else r.uniform(2.5, 6.0, size=n - 1)
        temps = [float(t) for t in np.cumprod([1.0] + list(fac))]
        if job["ladder"].endswith("unsorted"):
            # a list of chains that is not in order of temperature is legitimate (the library only warns): hottest first, or shuffled
            perm = list(range(n))[::-1] if seed_shift == 0 else [int(i) for i in mk_rng(job["seed"], "C01-pt-perm", job["i"]).permutation(n)]
            if perm == sorted(perm):
                perm = perm[::-1]
            temps = [temps[i] for i in perm]
        sp.update(n=n, kinds=[str(r.choice(["gibbs", "pca", "hmc"]))] * n, ladder=job["ladder"],
                  temps=temps, starts=(r.normal(size=(n, sp["d"])) * 1.5).tolist(),
                  seeds=[int(v) for v in r.integers(2**31, size=n + 2)], display=False)
        return sp

    ctx = {k: v for k, v in job.items() if k != "seed"}
    rec.context = ctx
    rec.count("pt:configs")
    rec.case(digest("pt", job["n"], job["ladder"]), nontrivial=True)

    def events(stage):
        sp = spec_for(stage)
        sp["program"] = [("take_steps", 2), ("swap", 0)] * (job["rounds"] * (4 if stage else 1))
        # the tempering monitors of C08 run along, but only what C01 is about may be reported here: the value each chain holds as
        # the log-probability of its current point (the "old" value of its next accept test) after steps and after exchanges
        view = OnlyKeys(rec, {"probability-not-of-sample", "exchange-not-retempered", "raised"}, prefix="pt:")
        o = c08.execute(sp, {"name": "unperturbed"}, view, monitor=True, ctx=ctx)
        if o.error and not rec.counters.get("violations:raised"):
            rec.violation("raised", f"tempering run failed: {o.error}", ctx)
        return o.exchange_events

    ev = events(0)
    up = [(p, a) for p, a in ev if p >= 1.0]
    down = [(p, a) for p, a in ev if p < 1.0]
    rec.count("pt:exchange_decisions", len(ev))
    rec.count("ledger:events", len(ev))
    rec.count("ledger:uphill", len(up))
    rec.count("ledger:downhill", len(down))
    rec.check(all(a for _, a in up), "certain-exchange-rejected", f"{sum(1 for _, a in up if not a)} exchanges with probability one were not made", ctx)

    def pv(n, stage):
        e = down if stage == 0 else [(p, a) for p, a in events(1) if p < 1.0]
        if len(e) < 30:
            return 1.0
        p = np.array([x[0] for x in e])
        a = np.array([1.0 if x[1] else 0.0 for x in e])
        v = (p * (1 - p)).sum()
        return st.z_to_p((a - p).sum() / np.sqrt(v)) if v > 1 else 1.0

    st.two_stage(rec, "exchange-miscalibrated", pv, len(down),
                 lambda: f"{job['name']}: exchanges between chains at different temperatures are not accepted with min(1, exp((1/Ti - 1/Tj)(Lj - Li)))", ctx)
