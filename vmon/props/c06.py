"""C06 - priors are normalised, sample from themselves, and compose by index.

Monitors: post-conditions on __call__/gradient/sample/bounds of the three prior
classes and JointPrior; on Posterior.* ; a recorder around prior.sample inside
generate_initial_guesses.  The oracle routes indices itself (it never reads
`variables` or `components` from the objects) and uses scipy.stats references.
"""
import numpy as np

from vmon.rec import digest
from vmon.util import mk_rng, guarded, Raised
from vmon import stats as st

ID = "C06"
RULE = (
    "seeded prior configurations: single priors with 1-4 variables at random indices of a longer theta; joint priors over "
    "random partitions/permutations of 1-8 indices among 1-5 components of mixed and repeated type (same-type merging), "
    "distinct hyper-parameters per coordinate; theta inside and outside supports; non-trivial = indices not in ascending "
    "contiguous order or >= 2 components; joint priors in which one component is a user-written sub-class (truncated Gaussian, shifted exponential, tilted uniform) of a library prior;  distinct = distinct (layout, hyper-parameters, theta)"
)
ASSUMPTIONS = [
    "scipy.stats.norm/expon/uniform are trusted references",
    "inference.priors.rng is replaced by a seeded generator (draws are otherwise the library's own)",
]
TIMEOUT = {"quick": 300, "thorough": 1500}
REQUIRED = {"post:joint_call": 100, "stat_tests": 100, "cases:permuted_layout": 30, "cases:merged_same_type": 30,
            "guess_selections": 10, "normalisation_integrals": 10, "cases:large_or_extreme": 20, "cases:bare_prior_posterior": 30, "cases:user_subclass_component": 60}

ZERO = -1e99  # the library represents zero density by -1e100


def jobs(tier, seed):
    n_jobs = 16 if tier == "quick" else 32
    return [{"name": f"prior-{j}", "seed": seed, "j": j,
             "n_single": 40 if tier == "quick" else 160,
             "n_joint": 32 if tier == "quick" else 140,
             "n_draws": 1500 if tier == "quick" else 4000} for j in range(n_jobs)]


# -------------------------------------------------------------- reference model
class Coord:
    """Reference description of the prior on one coordinate."""

    def __init__(self, rng, kind):
        self.kind = kind
        sc = 10.0 ** rng.uniform(-3, 3)
        self.integral = bool(rng.random() < 0.2)
        if self.integral:
            # whole-number hyper-parameters (what a user types, or takes from an integer array)
            if kind == "G":
                self.mu, self.sigma = float(rng.integers(-100, 101)), float(rng.integers(1, 121))
            elif kind == "E":
                self.beta = float(rng.integers(1, 121))
            else:
                self.lo = float(rng.integers(-100, 51))
                self.hi = self.lo + float(rng.integers(1, 71))
        elif kind == "G":
            self.mu = rng.normal() * sc * rng.choice([0, 1, 10])
            self.sigma = sc * rng.uniform(0.3, 3)
        elif kind == "E":
            self.beta = sc * rng.uniform(0.3, 3)
        else:
            self.lo = rng.normal() * sc
            self.hi = self.lo + sc * rng.uniform(0.3, 3)

    def logpdf(self, x):
        from scipy import stats

        if self.kind == "G":
            return stats.norm.logpdf(x, self.mu, self.sigma)
        if self.kind == "E":
            return stats.expon.logpdf(x, scale=self.beta) if x >= 0 else -np.inf
        return -np.log(self.hi - self.lo) if self.lo <= x <= self.hi else -np.inf

    def dlogpdf(self, x):
        if self.kind == "G":
            return (self.mu - x) / self.sigma**2
        if self.kind == "E":
            return -1.0 / self.beta
        return 0.0

    def cdf(self, x):
        from scipy import stats

        if self.kind == "G":
            return stats.norm.cdf(x, self.mu, self.sigma)
        if self.kind == "E":
            return stats.expon.cdf(x, scale=self.beta)
        return np.clip((x - self.lo) / (self.hi - self.lo), 0, 1)

    def support(self):
        if self.kind == "G":
            return (None, None)
        if self.kind == "E":
            return (0.0, None)
        return (self.lo, self.hi)

    def inside_point(self, rng):
        if self.kind == "G":
            return self.mu + self.sigma * rng.normal() * rng.choice([0.1, 1, 5])
        if self.kind == "E":
            return self.beta * rng.exponential() * rng.choice([0.01, 1, 10])
        return rng.uniform(self.lo, self.hi)

    def outside_point(self, rng):
        if self.kind == "E":
            return -self.beta * rng.exponential() - 1e-300
        if self.kind == "U":
            w = self.hi - self.lo
            return self.lo - w * rng.exponential() - np.spacing(self.lo) if rng.random() < 0.5 else self.hi + w * rng.exponential() + np.spacing(self.hi)
        return None

    def describe(self):
        return {k: v for k, v in self.__dict__.items()}


def build_component(priors, kind, coords, idx, rng):
    """Instantiate the library class for one component; argument forms vary."""
    form = rng.choice(["array", "list"])
    conv = (lambda v: np.array(v, dtype=float)) if form == "array" else (lambda v: [float(t) for t in v])
    if all(c.integral for c in coords):
        dt = [None, np.int64, np.int8, np.int16, np.float32][int(rng.integers(5))]
        conv = (lambda v: [int(t) for t in v]) if dt is None else (lambda v, dt=dt: np.array(v).astype(dt))
    if len(idx) == 1 and rng.random() < 0.3:
        conv = lambda v: float(v[0])  # noqa: E731 - scalar form
        ind = int(idx[0]) if rng.random() < 0.5 else [int(idx[0])]
    else:
        ind = [int(i) for i in idx]
        fi = rng.random()
        if fi < 0.3:          # the indices as another iterable than a list, in the order given
            ind = tuple(ind) if fi < 0.15 else {i: None for i in ind}.keys()     # (numpy integers are refused by the library's validation: python ints only)
    if kind == "G":
        return priors.GaussianPrior(mean=conv([c.mu for c in coords]), sigma=conv([c.sigma for c in coords]), variable_indices=ind)
    if kind == "E":
        return priors.ExponentialPrior(beta=conv([c.beta for c in coords]), variable_indices=ind)
    return priors.UniformPrior(lower=conv([c.lo for c in coords]), upper=conv([c.hi for c in coords]), variable_indices=ind)


def bounds_equal(a, b):
    def same(u, v):
        if u is None or v is None:
            return u is None and v is None
        return float(u) == float(v)
    return len(a) == len(b) and all(same(x[0], y[0]) and same(x[1], y[1]) for x, y in zip(a, b))


def check_object(rec, obj, layout, N, rng, tag, n_draws, priors):
    """layout: dict index -> Coord for every coordinate the object covers, as the
    harness assigned them.  All routing below is the oracle's own."""
    idxs = sorted(layout)
    ctx = dict(rec.context)
    # --- value / gradient inside the support
    for rep in range(3):
        theta = rng.normal(size=N) * 10.0 ** rng.uniform(-2, 2)
        for i in idxs:
            theta[i] = layout[i].inside_point(rng)
        if rep == 2:
            # integer-typed parameter vector (legal input): only when the rounded point is still strictly inside every support
            ti = np.rint(np.clip(theta, -1e15, 1e15))
            inside = lambda v, sp: (sp[0] is None or sp[0] < v) and (sp[1] is None or v < sp[1])
            if all(inside(ti[i], layout[i].support()) for i in idxs):
                theta = ti.astype(np.int64)
                rec.count("cases:integer_typed_parameters")
        terms = np.array([layout[i].logpdf(float(theta[i])) for i in idxs])
        ref = terms.sum()
        val = guarded(obj, theta)
        rec.count(f"post:{tag}_call")
        if isinstance(val, Raised):
            rec.violation("raised", f"{tag} __call__ raised {val!r}", ctx)
            return
        tol = 64 * np.finfo(float).eps * (np.abs(terms).sum() + len(idxs))
        rec.check(abs(float(val) - ref) <= tol, "value",
                  lambda: f"{tag} log-density {float(val)!r} != sum of reference log-pdfs {ref!r}; theta={theta}", ctx)
        g = guarded(obj.gradient, theta)
        rec.count(f"post:{tag}_gradient")
        if isinstance(g, Raised):
            rec.violation("raised", f"{tag} gradient raised {g!r}", ctx)
            return
        g = np.asarray(g, dtype=float)
        if tag == "joint":
            gref = np.zeros(N)
            for i in idxs:
                gref[i] = layout[i].dlogpdf(theta[i])
        else:
            # a single prior returns its gradient in the order of the indices it was given
            gref = np.array([layout[i].dlogpdf(theta[i]) for i in ctx["given_order"]])
        ok = g.shape == gref.shape and bool(np.all(np.abs(g - gref) <= 1e-12 * np.abs(gref) + 1e-300))
        rec.check(ok, "gradient", lambda: f"{tag} gradient {g} != reference {gref}", ctx)
        c = guarded(obj.cost, theta)
        rec.check((not isinstance(c, Raised)) and float(c) == -float(val), "cost", "cost is not the exact negative of the value", ctx)
        cg = guarded(obj.cost_gradient, theta)
        rec.check((not isinstance(cg, Raised)) and np.array_equal(np.asarray(cg, dtype=float), -g), "cost-gradient",
                  "cost_gradient is not the exact negative of the gradient", ctx)
        # --- one coordinate outside its support -> zero density
        limited = [i for i in idxs if layout[i].kind != "G"]
        if limited:
            i = int(rng.choice(limited))
            t2 = np.array(theta, dtype=float)
            t2[i] = layout[i].outside_point(rng)
            v2 = guarded(obj, t2)
            rec.count("outside_support_evaluations")
            rec.check((not isinstance(v2, Raised)) and float(v2) <= ZERO, "nonzero-outside-support",
                      lambda: f"{tag} log-density {v2!r} at a point outside the support of coordinate {i} ({layout[i].describe()}, value {t2[i]!r})", ctx)
            # the edge of the support: a coordinate exactly on an advertised bound is inside, the next float beyond it is outside
            i = int(rng.choice(limited))
            sp = layout[i].support()
            for side, edge in (("lower", sp[0]), ("upper", sp[1])):
                if edge is None:
                    continue
                te = np.array(theta, dtype=float)
                te[i] = edge
                ve = guarded(obj, te)
                want_e = sum(layout[k].logpdf(float(te[k])) for k in idxs)
                rec.count("support_edge_evaluations")
                rec.check((not isinstance(ve, Raised)) and np.isfinite(want_e) and abs(float(ve) - want_e) <= tol + 64 * np.finfo(float).eps * abs(want_e), "support-edge",
                          lambda: f"{tag} log-density {ve!r} with coordinate {i} exactly on its advertised {side} bound {edge!r} ({layout[i].describe()}); the density there is {want_e!r}", ctx)
                te[i] = np.nextafter(edge, -np.inf if side == "lower" else np.inf)
                vo = guarded(obj, te)
                rec.check((not isinstance(vo, Raised)) and float(vo) <= ZERO, "nonzero-outside-support",
                          lambda: f"{tag} log-density {vo!r} with coordinate {i} at {te[i]!r}, one float beyond its advertised {side} bound {edge!r}", ctx)
            # a point outside on a coordinate the object does NOT cover must not matter
        free = [i for i in range(N) if i not in layout]
        if free:
            t3 = theta.copy()
            t3[free] = -1e9
            v3 = guarded(obj, t3)
            rec.check((not isinstance(v3, Raised)) and float(v3) == float(val), "depends-on-foreign-coordinate",
                      "value changed when a coordinate outside the prior's variables changed", ctx)

    # --- bounds = support
    if tag == "joint":
        want = [layout[i].support() for i in range(N)]
    else:
        want = [layout[i].support() for i in ctx["given_order"]]
    got = guarded(lambda: list(obj.bounds))
    rec.check((not isinstance(got, Raised)) and bounds_equal(got, want), "bounds",
              lambda: f"{tag} bounds {got} != supports {want}", ctx)

    # --- draws follow the density: probability-integral transform per coordinate
    order = list(range(N)) if tag == "joint" else ctx["given_order"]

    def draw(n):
        out = np.empty((n, len(order)))
        for k in range(n):
            out[k] = obj.sample()
        return out

    first = guarded(draw, 4)
    if isinstance(first, Raised):
        rec.violation("raised", f"{tag} sample raised {first!r}", ctx)
        return
    for col, i in enumerate(order):
        co = layout[i]

        def pv(n, stage, col=col, co=co):
            d = draw(n)[:, col]
            lo, hi = co.support()
            if (lo is not None and (d < lo).any()) or (hi is not None and (d > hi).any()):
                return 0.0
            return st.ks_uniform_p(co.cdf(d))

        st.two_stage(rec, "draws-not-from-density", pv, n_draws,
                     lambda: f"{tag} sample(): coordinate {i} does not follow its density {co.describe()}", ctx)

    # --- the coordinates of one draw are independent (every prior here is a product density)
    if len(order) >= 2:
        from scipy import stats as sst

        def pv_ind(n, stage):
            d = draw(n)
            U = np.empty_like(d)
            for col, i in enumerate(order):
                U[:, col] = sst.norm.ppf(np.clip(layout[i].cdf(d[:, col]), 1e-12, 1 - 1e-12))
            ps = []
            for a in range(len(order)):
                for b in range(a + 1, len(order)):
                    ps.append(st.z_to_p((U[:, a] * U[:, b]).sum() / np.sqrt(n)))
            return float(min(1.0, min(ps) * len(ps)))

        st.two_stage(rec, "draw-coordinates-not-independent", pv_ind, n_draws,
                     lambda: f"{tag} sample(): the coordinates of a draw are correlated although the density is a product", ctx)



# -------------------------------------------------------------- user-written refinements of the library's prior classes
def user_prior_classes(priors):
    """Sub-classes a user writes to get a custom prior into a JointPrior (which accepts the three library families only):
    each overrides value, gradient, draws and bounds consistently."""
    from scipy.special import log_ndtr

    class TruncatedGaussian(priors.GaussianPrior):
        def __init__(self, mean, sigma, lower, variable_indices):
            super().__init__(mean=mean, sigma=sigma, variable_indices=variable_indices)
            self.lower = np.atleast_1d(lower).astype(float)
            self.log_mass = float(log_ndtr(-(self.lower - self.mean) / self.sigma).sum())
            self.bounds = [(float(lo), None) for lo in self.lower]

        def __call__(self, theta):
            if (theta[self.variables] < self.lower).any():
                return -1e100
            return super().__call__(theta) - self.log_mass

        def gradient(self, theta):
            return np.where(theta[self.variables] >= self.lower, super().gradient(theta), 0.0)

        def sample(self):
            while True:
                d = super().sample()
                if (d >= self.lower).all():
                    return d

    class ShiftedExponential(priors.ExponentialPrior):
        def __init__(self, beta, shift, variable_indices):
            super().__init__(beta=beta, variable_indices=variable_indices)
            self.shift = np.atleast_1d(shift).astype(float)
            self.bounds = [(float(v), None) for v in self.shift]

        def __call__(self, theta):
            t = np.array(theta, dtype=float)
            t[self.variables] = t[self.variables] - self.shift
            return super().__call__(t)

        def sample(self):
            return super().sample() + self.shift

    class TiltedUniform(priors.UniformPrior):
        """density proportional to exp(k (x - lower)) on [lower, upper]"""

        def __init__(self, lower, upper, tilt, variable_indices):
            super().__init__(lower=lower, upper=upper, variable_indices=variable_indices)
            self.tilt = np.atleast_1d(tilt).astype(float)
            w = self.upper - self.lower
            self.log_norm = float(np.log(np.expm1(self.tilt * w) / self.tilt).sum())

        def __call__(self, theta):
            v = super().__call__(theta)
            if v < -1e99:
                return v
            return float((self.tilt * (theta[self.variables] - self.lower)).sum()) - self.log_norm

        def gradient(self, theta):
            return self.tilt.copy()

        def sample(self):
            u = priors.rng.uniform(size=self.lower.size)
            return self.lower + np.log1p(u * np.expm1(self.tilt * (self.upper - self.lower))) / self.tilt

    return TruncatedGaussian, ShiftedExponential, TiltedUniform


def user_subclass_cases(job, rec, rng, priors):
    """A joint prior equals the sum of the components it was given - also when one of them is a user-written sub-class of a library prior."""
    TG, SE, TU = user_prior_classes(priors)
    for c in range(job.get("n_user", 12)):
        N = int(rng.integers(2, 7))
        perm = [int(i) for i in rng.permutation(N)]
        which = str(rng.choice(["G", "E", "U"]))
        k = int(rng.integers(1, min(3, N)))     # coordinates of the user-written component
        mine, rest = perm[:k], perm[k:]
        sc = 10.0 ** rng.uniform(-2, 2)
        if which == "G":
            mu, sg = rng.normal(size=k) * sc, sc * rng.uniform(0.5, 2, size=k)
            user = TG(mu, sg, mu + sg * rng.uniform(-1, 1, size=k), mine)
            lo_support = user.lower
        elif which == "E":
            user = SE(sc * rng.uniform(0.5, 2, size=k), rng.normal(size=k) * sc * 3, mine)
            lo_support = user.shift
        else:
            lo = rng.normal(size=k) * sc
            user = TU(lo, lo + sc * rng.uniform(0.5, 2, size=k), rng.uniform(0.5, 3, size=k) / sc, mine)
            lo_support = user.lower
        # the other coordinates go to library components of the other two families (the user's component is the only one of its family)
        others = [f for f in "GEU" if f != which]
        comps, cut = [user], int(rng.integers(0, len(rest) + 1))
        for fam, idx in zip(others, [rest[:cut], rest[cut:]]):
            if idx:
                comps.append(build_component(priors, fam, [Coord(rng, fam) for _ in idx], idx, rng))
        if len(comps) == 1:
            comps.append(build_component(priors, others[0], [Coord(rng, others[0])], [rest[0]], rng)) if rest else None
        covered = sorted(i for cmp_ in comps for i in cmp_.variables)
        if covered != list(range(N)):
            continue
        order = [int(i) for i in rng.permutation(len(comps))]
        ctx = {"user_subclass": type(user).__name__, "N": N, "its_indices": mine, "component_order": order}
        rec.context = ctx
        jp = guarded(priors.JointPrior, [comps[i] for i in order], N)
        if isinstance(jp, Raised):
            rec.violation("raised", f"JointPrior constructor raised {jp!r}", ctx)
            continue
        rec.count("cases:user_subclass_component")
        rec.case(digest("user", which, N, mine, order, float(sc)), nontrivial=True)
        for rep in range(6):
            theta = np.zeros(N)
            for cmp_ in comps:
                d = np.asarray(cmp_.sample(), float)
                theta[np.asarray(cmp_.variables)] = d
            if rep == 5:
                theta[mine[0]] = lo_support[0] - abs(sc)      # outside the user's support
            want = sum(float(cmp_(theta)) for cmp_ in comps)
            got = guarded(jp, theta)
            rec.count("post:joint_call")
            tol = 1e-12 * max(1.0, sum(abs(float(cmp_(theta))) for cmp_ in comps))
            rec.check((not isinstance(got, Raised)) and abs(float(got) - want) <= tol, "joint-not-sum-of-components",
                      lambda: f"JointPrior value {got!r} differs from the sum of the log-densities of the components it was given {want!r} "
                              f"(one of them a user-written sub-class: {type(user).__name__})", ctx)
            if rep < 5:
                gw = np.zeros(N)
                for cmp_ in comps:
                    gw[np.asarray(cmp_.variables)] = np.asarray(cmp_.gradient(theta), float)
                gg = guarded(jp.gradient, theta)
                rec.check((not isinstance(gg, Raised)) and np.allclose(np.asarray(gg, float), gw, rtol=1e-12, atol=0), "joint-gradient-not-of-components",
                          lambda: f"JointPrior gradient {gg!r} differs from the component gradients {gw!r} ({type(user).__name__})", ctx)
        wb = [None] * N
        for cmp_ in comps:
            for i, b in zip(cmp_.variables, cmp_.bounds):
                wb[i] = b
        rec.check(bounds_equal(list(jp.bounds), wb), "joint-bounds-not-of-components",
                  lambda: f"JointPrior bounds {jp.bounds} differ from the bounds of the components {wb}", ctx)
        for _ in range(40):
            d = guarded(jp.sample)
            if isinstance(d, Raised):
                rec.violation("raised", f"JointPrior.sample raised {d!r}", ctx)
                break
            d = np.asarray(d, float)
            if not rec.check(bool(np.all(d[mine] >= lo_support)) and float(jp(d)) > ZERO, "draw-outside-support",
                             lambda: f"JointPrior.sample returned {d}: outside the support of the {type(user).__name__} component", ctx):
                break


def run_job(job, rec):
    import inference.priors as priors
    from inference.posterior import Posterior
    from inference.likelihoods import GaussianLikelihood
    from scipy.integrate import quad

    rng = mk_rng(job["seed"], "C06", job["j"])
    priors.rng = np.random.default_rng(rng.integers(2**63))
    user_subclass_cases(job, rec, mk_rng(job["seed"], "C06-user", job["j"]), priors)

    # ------------------------------------------------ single prior objects
    for c in range(job["n_single"]):
        kind = str(rng.choice(["G", "E", "U"]))
        n = int(rng.integers(1, 5))
        N = n + int(rng.integers(0, 4))
        idx = [int(i) for i in rng.permutation(N)[:n]]
        coords = [Coord(rng, kind) for _ in range(n)]
        rec.context = {"single": kind, "given_order": idx, "N": N, "coords": [co.describe() for co in coords]}
        obj = guarded(build_component, priors, kind, coords, idx, rng)
        if isinstance(obj, Raised):
            rec.violation("raised", f"constructor raised {obj!r}", rec.context)
            continue
        layout = dict(zip(idx, coords))
        nontrivial = idx != sorted(idx) or idx != list(range(idx[0], idx[0] + n))
        rec.case(digest("single", kind, idx, [sorted(co.describe().items()) for co in coords]), nontrivial=nontrivial or n > 1)
        if nontrivial:
            rec.count("cases:permuted_layout")
        if c == 0:
            rec.sample(rec.context)
        check_object(rec, obj, layout, N, rng, "single", job["n_draws"], priors)

        # normalisation by quadrature (one-variable instances)
        if n == 1 and rng.random() < 0.7:
            co = coords[0]
            i0 = idx[0]

            def dens(x):
                t = np.zeros(N)
                t[i0] = x
                return float(np.exp(obj(t)))

            if kind == "G":
                pts = [co.mu + k * co.sigma for k in (-40, -8, -2, 0, 2, 8, 40)]
            elif kind == "E":
                pts = [-5 * co.beta, 0.0, co.beta, 5 * co.beta, 50 * co.beta]
            else:
                w = co.hi - co.lo
                pts = [co.lo - w, co.lo, co.hi, co.hi + w]
            integral = sum(quad(dens, a, b, limit=200)[0] for a, b in zip(pts[:-1], pts[1:]))
            rec.count("normalisation_integrals")
            rec.check(abs(integral - 1) <= 1e-6, "not-normalised",
                      lambda: f"{kind} prior integrates to {integral!r} over (and beyond) its support: {co.describe()}", rec.context)

    # ------------------------------------------------ many variables and extreme hyper-parameter magnitudes
    for c in range(max(2, job["n_single"] // 4)):
        kind = str(rng.choice(["G", "E", "U"]))
        n = int(rng.choice([60, 200, 450, 900]))
        ex = float(rng.choice([2.0, 30.0, 120.0]))
        coords = []
        for _ in range(n):
            co = Coord(rng, kind)
            co.integral = False   # (rescaled below: no longer whole numbers)
            f = 10.0 ** rng.uniform(-ex, ex) if rng.random() < 0.5 else 10.0 ** (-ex if rng.random() < 0.5 else ex) * rng.uniform(0.5, 2)
            if kind == "G":
                co.mu, co.sigma = co.mu * f, co.sigma * f
            elif kind == "E":
                co.beta = co.beta * f
            else:
                co.lo, co.hi = co.lo * f, co.lo * f + (co.hi - co.lo) * f
            coords.append(co)
        idx = [int(i) for i in rng.permutation(n)]
        lctx = {"large": kind, "n": n, "magnitude_decades": ex}
        rec.context = lctx
        single = rng.random() < 0.5
        if single:
            obj = guarded(build_component, priors, kind, coords, idx, rng)
        else:
            comps = [guarded(build_component, priors, kind, [co], [i], rng) for co, i in zip(coords, idx)]
            obj = guarded(priors.JointPrior, comps, n) if not any(isinstance(v, Raised) for v in comps) else comps[0]
        rec.count("cases:large_or_extreme")
        rec.case(digest("large", kind, n, ex, idx[:5]), nontrivial=True)
        if isinstance(obj, Raised):
            rec.violation("raised", f"constructing a {kind} prior over {n} variables raised {obj!r}", lctx)
            continue
        layout = dict(zip(idx, coords))
        theta = np.zeros(n)
        for i in idx:
            theta[i] = layout[i].inside_point(rng)
        terms = np.array([layout[i].logpdf(theta[i]) for i in range(n)])
        ref = float(np.sum(terms))
        val = guarded(obj, theta)
        tol = 64 * np.finfo(float).eps * (np.abs(terms).sum() + n)
        rec.check((not isinstance(val, Raised)) and np.isfinite(ref) and abs(float(val) - ref) <= tol, "value",
                  lambda: f"{kind} prior over {n} variables (hyper-parameters spanning 1e+-{ex:g}): log-density {val!r} != sum of reference log-pdfs {ref!r}", lctx)
        g = guarded(obj.gradient, theta)
        if single:
            gref = np.array([layout[i].dlogpdf(theta[i]) for i in idx])
        else:
            gref = np.array([layout[i].dlogpdf(theta[i]) for i in range(n)])
        rec.check((not isinstance(g, Raised)) and np.shape(g) == gref.shape and bool(np.all(np.abs(np.asarray(g) - gref) <= 1e-12 * np.abs(gref) + 1e-300)), "gradient",
                  lambda: f"{kind} prior over {n} variables: gradient differs from the reference", lctx)

    # ------------------------------------------------ posterior built on a bare prior object, gradient called repeatedly
    for c in range(max(3, job["n_single"] // 6)):
        kind = ["G", "E", "U"][c % 3]
        n = int(rng.integers(1, 4))
        coords = [Coord(rng, kind) for _ in range(n)]
        idx = list(range(n))
        pr = guarded(build_component, priors, kind, coords, idx, rng)
        twin = guarded(build_component, priors, kind, coords, idx, rng)   # never handed to a Posterior
        bctx = {"bare_prior": kind, "n": n}
        rec.context = bctx
        if isinstance(pr, Raised) or isinstance(twin, Raised):
            rec.violation("raised", f"constructor raised {pr!r}", bctx)
            continue
        m = int(rng.integers(1, 5))
        A = rng.normal(size=(m, n))
        yv = rng.normal(size=m)
        lik = GaussianLikelihood(yv, np.full(m, 0.7), lambda t: A @ t, lambda t: A)
        post = Posterior(likelihood=lik, prior=pr)
        rec.count("cases:bare_prior_posterior")
        for rep in range(3):
            theta = np.array([co.inside_point(rng) for co in coords])
            want = lik.gradient(theta) + twin.gradient(theta)
            g = guarded(post.gradient, theta)
            cg = guarded(post.cost_gradient, theta)
            ok = (not isinstance(g, Raised)) and (not isinstance(cg, Raised)) and np.array_equal(np.asarray(g), want) and np.array_equal(np.asarray(cg), -want)
            rec.check(ok, "posterior-gradient",
                      lambda: f"{kind} prior, call {rep + 1}: Posterior.gradient = {g!r}, cost_gradient = {cg!r}; likelihood + prior gradient = {want}", bctx)
            rec.check(np.array_equal(np.asarray(pr.gradient(theta)), np.asarray(twin.gradient(theta))), "prior-state-modified",
                      lambda: f"{kind} prior: its gradient changed after being used inside a Posterior ({pr.gradient(theta)} vs {twin.gradient(theta)})", bctx)
            rec.check(guarded(post, theta) == lik(theta) + twin(theta), "posterior-sum", "Posterior.__call__ != likelihood + prior", bctx)

    # ------------------------------------------------ joint priors
    for c in range(job["n_joint"]):
        N = int(rng.integers(1, 9))
        n_comp = int(rng.integers(1, min(N, 5) + 1))
        perm = [int(i) for i in rng.permutation(N)]
        cuts = sorted(rng.choice(np.arange(1, N), size=n_comp - 1, replace=False).tolist()) if n_comp > 1 else []
        groups = [perm[a:b] for a, b in zip([0] + cuts, cuts + [N])]
        kinds = [str(rng.choice(["G", "E", "U"])) for _ in groups]
        if n_comp >= 2 and rng.random() < 0.6:
            kinds[1] = kinds[0]  # force same-type merging
        layout = {}
        comps = []
        failed = False
        for g, k in zip(groups, kinds):
            cs = [Coord(rng, k) for _ in g]
            layout.update(dict(zip(g, cs)))
            comp = guarded(build_component, priors, k, cs, g, rng)
            if isinstance(comp, Raised):
                rec.violation("raised", f"component constructor raised {comp!r}", {"group": g, "kind": k})
                failed = True
                break
            comps.append(comp)
        if failed:
            continue
        order = [int(i) for i in rng.permutation(len(comps))]
        rec.context = {"joint": True, "N": N, "groups": groups, "kinds": kinds, "component_order": order}
        jp = guarded(priors.JointPrior, [comps[i] for i in order], N)
        if isinstance(jp, Raised):
            rec.violation("raised", f"JointPrior constructor raised {jp!r}", rec.context)
            continue
        merged = len(set(kinds)) < len(kinds)
        permuted = perm != sorted(perm)
        rec.case(digest("joint", groups, kinds, order, [sorted(layout[i].describe().items()) for i in range(N)]),
                 nontrivial=permuted or n_comp >= 2)
        if permuted:
            rec.count("cases:permuted_layout")
        if merged:
            rec.count("cases:merged_same_type")
        if c == 0:
            rec.sample(rec.context)
        check_object(rec, jp, layout, N, rng, "joint", job["n_draws"], priors)

        # ------------------------------------------ posterior = likelihood + prior
        if c % 2 == 0:
            m = int(rng.integers(1, 6))
            A = rng.normal(size=(m, N))
            y = rng.normal(size=m)
            sg = 10.0 ** rng.uniform(-1, 1, size=m)
            lik = GaussianLikelihood(y, sg, lambda t: A @ t, lambda t: A)
            post = Posterior(likelihood=lik, prior=jp)
            theta = np.array([layout[i].inside_point(rng) for i in range(N)])
            lv, pv_ = lik(theta), jp(theta)
            rec.count("post:posterior")
            rec.check(guarded(post, theta) == lv + pv_, "posterior-sum", "Posterior.__call__ != likelihood + prior", rec.context)
            rec.check(guarded(post.cost, theta) == -(lv + pv_), "posterior-cost", "Posterior.cost != -(likelihood + prior)", rec.context)
            gsum = lik.gradient(theta) + jp.gradient(theta)
            pg = guarded(post.gradient, theta)
            rec.check((not isinstance(pg, Raised)) and np.array_equal(pg, gsum), "posterior-gradient",
                      "Posterior.gradient != likelihood.gradient + prior.gradient", rec.context)
            pcg = guarded(post.cost_gradient, theta)
            rec.check((not isinstance(pcg, Raised)) and np.array_equal(pcg, -gsum), "posterior-cost-gradient",
                      "Posterior.cost_gradient != -(sum of gradients)", rec.context)

            # initial guesses = the best of the recorded prior draws, in increasing cost
            draws = []
            real_sample = jp.sample

            def recording_sample():
                d = real_sample()
                draws.append(np.array(d, copy=True))
                return d

            jp.sample = recording_sample
            n_s = int(rng.integers(1, 60)) if rng.random() < 0.75 else int(rng.integers(200, 700))   # (hundreds of draws: selection routines change their strategy with size)
            n_g = int(rng.integers(1, n_s + 1))
            guesses = guarded(post.generate_initial_guesses, n_guesses=n_g, prior_samples=n_s)
            del jp.sample
            rec.count("guess_selections")
            gctx = {**rec.context, "n_guesses": n_g, "prior_samples": n_s}
            if isinstance(guesses, Raised):
                rec.violation("raised", f"generate_initial_guesses raised {guesses!r}", gctx)
            else:
                costs = np.array([-(lik(d) + jp(d)) for d in draws])
                rec.check(len(draws) == n_s, "guess-draw-count", f"{len(draws)} prior draws were made, {n_s} requested", gctx)
                rec.check(len(guesses) == n_g, "guess-count", f"{len(guesses)} guesses returned, {n_g} requested", gctx)
                gc = np.array([-(lik(np.asarray(g)) + jp(np.asarray(g))) for g in guesses])
                from_draws = all(any(np.array_equal(np.asarray(g), d) for d in draws) for g in guesses)
                rec.check(from_draws, "guess-not-a-draw", "a returned guess is not one of the prior draws", gctx)
                rec.check(bool(np.all(np.diff(gc) >= 0)), "guess-order", lambda: f"guesses not in increasing cost: {gc}", gctx)
                if len(costs) == n_s and len(gc) == n_g:
                    best = np.sort(costs)[:n_g]
                    rec.check(np.array_equal(np.sort(gc), best), "guess-not-best",
                              lambda: f"returned costs {np.sort(gc)} are not the {n_g} lowest of the draws {best}", gctx)
