"""C10 - covariance and mean functions are valid and their gradients are exact.

Monitors: post-conditions on __call__, build_covariance, covariance_and_gradients,
build_mean, mean_and_gradients, labels, bounds and __add__ of the real objects.
Oracles: reference kernels from the documented formulas (vmon.ref.gp), symmetric
eigen-decomposition (PSD), Richardson central differences of the real builder
(gradients), and the oracle's own slicing for composites.
"""
import numpy as np

from vmon.rec import digest
from vmon.util import mk_rng, guarded, Raised, num_grad
from vmon.ref import gp as R
from vmon import gpgen as G

ID = "C10"
RULE = (
    "seeded (kernel spec, point set, hyper-parameters): SE/RQ/WhiteNoise/Heteroscedastic, sums of 2-4, change-points with "
    "2-4 kernels on any axis, sums containing change-points and change-points containing sums; 2-25 points in 1-3 "
    "dimensions at scales 1e-2..1e2; change-point regions with their own noise term; abrupt change-points (widths 1e-4.5..1e-2.8 of the range) in a "
    "quarter of the change-point cases; all three mean functions, point by point and on all points in one call; non-trivial = composite kernel or d >= 2; "
    "distinct = distinct (spec, points, theta)"
)
ASSUMPTIONS = ["hyper-parameter gradients are compared with Richardson central differences of the real builder at 1e-6 of the matrix scale"]
TIMEOUT = {"quick": 300, "thorough": 1800}
REQUIRED = {"post:covariance_and_gradients": 100, "cases:cp3plus": 20, "cases:d>=2": 50, "cases:sum": 30,
            "post:mean_and_gradients": 30, "gradient_entries_checked": 500, "operand_reuse_checks": 20, "cases:large_point_set": 8, "cases:far_from_origin": 40, "cases:abrupt_change_points": 20}


def jobs(tier, seed):
    n_jobs = 16 if tier == "quick" else 32
    return [{"name": f"cov-{j}", "seed": seed, "j": j, "n_cases": 60 if tier == "quick" else 400, "n_large": 1 if tier == "quick" else 4} for j in range(n_jobs)]


def standalone_labels(spec, x, prefix_free=True):
    """Labels of a component built on its own (oracle-side slicing)."""
    k = G.build_repo_kernel(spec)
    k.pass_spatial_data(x)
    return list(k.hyperpar_labels)


def run_job(job, rec):
    from inference.gp import covariance as C

    rng = mk_rng(job["seed"], "C10", job["j"])
    eps = np.finfo(float).eps

    for c in range(job["n_cases"]):
        d = int(rng.choice([1, 1, 2, 2, 3]))
        n = int(rng.choice([2, 3, 5, 8, 12, 18, 25]))
        spec = G.fix_axes(G.random_spec(rng, cp_noise=True), rng, d)
        # point clouds far from the origin (not with change-points: their location parameter would need steps below its rounding)
        far = bool(rng.random() < 0.2) and G.count_cp_kernels(spec) == 0
        x = G.random_points(rng, n, d, far=far)
        theta = G.random_theta(spec, rng, x, y_scale=10.0 ** rng.uniform(-2, 2))
        sharp = False
        if G.count_cp_kernels(spec) and rng.random() < 0.25:
            # abrupt change-points: transition widths of 1e-4.5 .. 1e-2.8 of the axis range (points sit hundreds to thousands of widths away)
            theta = np.array(theta, dtype=float)
            for pos, width in cp_positions(spec, n, d, x):
                theta[pos + 1] = width * 10.0 ** rng.uniform(-4.5, -2.8)
            sharp = True
            rec.count("cases:abrupt_change_points")
        via_add = [False, "left", "right", "balanced"][int(rng.integers(4))]   # how a sum is put together
        share = bool(rng.random() < 0.25)                                        # one object per kernel class, used for every term of that class
        desc = G.describe(spec)
        rec.context = {"case": c, "spec": desc, "n": n, "d": d, "via_add": via_add, "shared_instances": share, "far_from_origin": far}
        rec.count(f"assembly:{via_add or 'constructor'}")
        if share:
            rec.count("assembly:shared_instances")
        if far:
            rec.count("cases:far_from_origin")
        K = guarded(G.build_repo_kernel, spec, via_add, share)
        if isinstance(K, Raised):
            rec.violation("raised", f"building {desc} raised {K!r}", rec.context)
            continue
        r = guarded(K.pass_spatial_data, x)
        if isinstance(r, Raised):
            rec.violation("raised", f"pass_spatial_data raised {r!r}", rec.context)
            continue
        ncp = G.count_cp_kernels(spec)
        rec.case(digest(desc, x, theta), nontrivial=(spec[0] in ("SUM", "CP")) or d >= 2)
        if ncp >= 3:
            rec.count("cases:cp3plus")
        if d >= 2:
            rec.count("cases:d>=2")
        if spec[0] == "SUM":
            rec.count("cases:sum")
        if R.has_hn(spec):
            rec.count("cases:heteroscedastic")
        if c < 2:
            rec.sample({**rec.context, "theta": theta, "x_head": x[:3]})

        npar = R.n_params(spec, n, d)
        rec.check(getattr(K, "n_params", None) == npar, "n_params",
                  lambda: f"{desc}: n_params {getattr(K, 'n_params', None)} != {npar}", rec.context)
        if getattr(K, "n_params", None) != npar:
            continue

        # ---- pairwise evaluation vs reference, on the data and on fresh points
        m = int(rng.integers(1, 7))
        u = G.random_points(rng, m, d) * 0 + x[rng.integers(0, n, size=m)] + rng.normal(size=(m, d)) * np.ptp(x, axis=0) * 0.3
        for (a, b, tag) in ((x, x, "xx"), (u, x, "ux"), (u, u, "uu")):
            got = guarded(K, a, b, theta)
            rec.count("post:__call__")
            if isinstance(got, Raised):
                rec.violation("raised", f"{desc}(u,v) raised {got!r} [{tag}]", rec.context)
                continue
            ref = R.kernel(spec, a, b, theta, n)
            scale = max(np.abs(ref).max(), 1e-300)
            ok = np.shape(got) == ref.shape and bool(np.abs(np.asarray(got) - ref).max() <= 1e-11 * scale)
            rec.check(ok, "pairwise-value", lambda: f"{desc} pairwise [{tag}] differs from the documented formula by "
                      f"{np.abs(np.asarray(got) - ref).max() if np.shape(got) == ref.shape else 'shape ' + str(np.shape(got))} (scale {scale:.3e})", rec.context)
            if tag in ("xx", "uu") and not isinstance(got, Raised) and np.shape(got) == ref.shape:
                got = np.asarray(got, float)
                rec.check(bool(np.abs(got - got.T).max() <= 1e-13 * scale), "not-symmetric",
                          lambda: f"{desc} K(u,u) asymmetric by {np.abs(got - got.T).max():.3e}", rec.context)
                lam = np.linalg.eigvalsh(0.5 * (got + got.T))
                rec.count("psd_checks")
                rec.check(lam.min() >= -1e-10 * max(np.abs(lam).max(), 1e-300), "not-psd",
                          lambda: f"{desc} K(u,u) has eigenvalue {lam.min():.3e} (largest {lam.max():.3e})", rec.context)

        # ---- fast builder = pairwise + documented diagonal terms
        B = guarded(K.build_covariance, theta)
        rec.count("post:build_covariance")
        if isinstance(B, Raised):
            rec.violation("raised", f"build_covariance raised {B!r}", rec.context)
            continue
        B = np.asarray(B, float)
        Kref = R.kernel(spec, x, x, theta, n)
        noise = R.noise_diag(spec, x, theta)
        scale = max(np.abs(Kref).max(), noise.max(), 1e-300)
        if not rec.check(B.shape == (n, n), "builder-shape", f"build_covariance shape {B.shape}", rec.context):
            continue
        D = B - Kref
        off = D - np.diag(np.diag(D))
        rec.check(bool(np.abs(off).max() <= 1e-11 * scale) if n > 1 else True, "builder-offdiagonal",
                  lambda: f"{desc}: builder and pairwise evaluation differ off the diagonal by {np.abs(off).max():.3e}", rec.context)
        extra = np.diag(D) - noise
        jit_hi = 1e-9 * np.abs(np.diag(Kref)) + 1e-11 * scale
        rec.check(bool(np.all(extra >= -1e-11 * scale) and np.all(extra <= jit_hi)), "builder-diagonal",
                  lambda: f"{desc}: builder diagonal minus (pairwise + noise variances) = {extra} is not a small jitter", rec.context)
        rec.check(bool(np.abs(B - B.T).max() <= 1e-13 * scale), "not-symmetric", "builder matrix asymmetric", rec.context)
        lam = np.linalg.eigvalsh(0.5 * (B + B.T))
        rec.check(lam.min() >= -1e-10 * max(np.abs(lam).max(), 1e-300), "not-psd",
                  lambda: f"{desc}: data covariance has eigenvalue {lam.min():.3e}", rec.context)

        # ---- analytic hyper-parameter gradients vs Richardson differences of the builder
        KG = guarded(K.covariance_and_gradients, theta)
        rec.count("post:covariance_and_gradients")
        if isinstance(KG, Raised):
            rec.violation("raised", f"covariance_and_gradients raised {KG!r}", rec.context)
            continue
        K2, grads = KG
        rec.check(bool(np.abs(np.asarray(K2) - B).max() <= 1e-12 * scale), "value-and-gradient-value",
                  "covariance_and_gradients returns a different matrix than build_covariance", rec.context)
        if not rec.check(len(grads) == npar, "gradient-count", f"{len(grads)} gradient matrices for {npar} hyper-parameters", rec.context):
            continue
        # step sizes: log-parameters 1e-3; change-point location/width relative to the axis range
        h = np.full(npar, 1e-3)
        for pos, width in cp_positions(spec, n, d, x):
            h[pos] = 1e-4 * width
            h[pos + 1] = 1e-4 * width
            if sharp:
                h[pos] = h[pos + 1] = 1e-3 * theta[pos + 1]
        num = num_grad(lambda t: np.asarray(K.build_covariance(t), float), theta, h)
        for i in range(npar):
            g = np.asarray(grads[i], float)
            gs = max(np.abs(num[i]).max(), np.abs(g).max() if g.shape == (n, n) else 0.0)
            tol = 2e-6 * max(gs, 1e-300) + 50 * eps * scale / h[i]
            ok = g.shape == (n, n) and bool(np.abs(g - num[i]).max() <= tol)
            rec.count("gradient_entries_checked")
            rec.check(ok, "hyperparameter-gradient",
                      lambda: f"{desc}: d K / d theta[{i}] differs from the numerical derivative by "
                      f"{np.abs(g - num[i]).max() if g.shape == (n, n) else g.shape} (gradient scale {gs:.3e}, tol {tol:.2e})", rec.context)

        # ---- integer-typed hyper-parameters / points give the same matrices as the same values as floats
        if c % 3 == 1 and not cp_positions(spec, n, d, x):
            ti = np.round(theta).astype(int)
            ui = np.round(u / np.where(np.ptp(x, axis=0) > 0, np.ptp(x, axis=0), 1.0) * 4).astype(int)
            if np.all(np.abs(ui) < 10**6):
                A1, A2 = guarded(K.build_covariance, ti), guarded(K.build_covariance, ti.astype(float))
                G1, G2 = guarded(K.covariance_and_gradients, ti), guarded(K.covariance_and_gradients, ti.astype(float))
                C1, C2 = guarded(K, ui, ui, ti), guarded(K, ui.astype(float), ui.astype(float), ti.astype(float))
                rec.count("integer_input_cases")
                okd = not any(isinstance(v, Raised) for v in (A1, A2, G1, G2, C1, C2)) and np.allclose(A1, A2, rtol=1e-12, atol=0) and np.allclose(C1, C2, rtol=1e-12, atol=0) \
                    and all(np.allclose(a, b, rtol=1e-12, atol=0) for a, b in zip(G1[1], G2[1]))
                rec.check(okd, "depends-on-dtype", lambda: f"{desc}: integer-typed hyper-parameters / points give different matrices from the same values as floats", rec.context)

        # ---- history: the same hyper-parameter array modified in place between calls
        if c % 2 == 0:
            th = np.array(theta, dtype=float)
            cpi = {a for a, _ in cp_positions(spec, n, d, x)} | {a + 1 for a, _ in cp_positions(spec, n, d, x)}
            free = [i for i in range(npar) if i not in cpi]
            if free:
                guarded(K.build_covariance, th)
                guarded(K.covariance_and_gradients, th)
                k1 = int(rng.choice(free))
                th[k1] -= float(rng.uniform(0.2, 0.6))      # first in-place update (forces any cache to rebuild on this array)
                guarded(K.build_covariance, th)
                guarded(K.covariance_and_gradients, th)
                guarded(K, x, x, th)
                k0 = int(rng.choice(free))
                th[k0] += float(rng.uniform(0.2, 0.6))      # second in-place update: judged
                B2 = guarded(K.build_covariance, th)
                KG2 = guarded(K.covariance_and_gradients, th)
                P2 = guarded(K, x, x, th)
                ref2 = R.kernel(spec, x, x, th, n)
                sc2 = max(np.abs(ref2).max(), R.noise_diag(spec, x, th).max(), 1e-300)
                rec.count("in_place_theta_updates")
                ok2 = not any(isinstance(v, Raised) for v in (B2, KG2, P2))
                if ok2:
                    D2 = np.asarray(B2, float) - ref2 - np.diag(R.noise_diag(spec, x, th))
                    ok2 = bool(np.abs(D2 - np.diag(np.diag(D2))).max() <= 1e-11 * sc2) and bool(np.all(np.abs(np.diag(D2)) <= 1e-9 * np.abs(np.diag(ref2)) + 1e-11 * sc2)) \
                        and bool(np.abs(np.asarray(KG2[0], float) - np.asarray(B2, float)).max() <= 1e-12 * sc2) and bool(np.abs(np.asarray(P2, float) - ref2).max() <= 1e-11 * sc2)
                rec.check(ok2, "stale-after-in-place-update",
                          lambda: f"{desc}: after hyper-parameter {k0} was changed in place in the same array, the covariance is not the one for the new values", rec.context)

        # ---- composites: labels and bounds are the components' concatenated in order
        if spec[0] in ("SUM", "CP"):
            subs = spec[1] if spec[0] == "SUM" else spec[2]
            labels = list(getattr(K, "hyperpar_labels", []))
            rec.check(len(labels) == npar, "label-count", f"{len(labels)} labels for {npar} hyper-parameters", rec.context)
            pos = 0
            ok = len(labels) == npar
            if ok:
                for s in subs:
                    for lab in standalone_labels(s, x):
                        ok = ok and labels[pos].endswith(lab)
                        pos += 1
            rec.check(ok, "labels-not-concatenated", lambda: f"{desc}: labels {labels} are not the components' labels in order", rec.context)
            y = rng.normal(size=n) * 10.0 ** rng.uniform(-1, 1)
            K.bounds = None
            rb = guarded(K.estimate_hyperpar_bounds, y)
            if isinstance(rb, Raised):
                rec.violation("raised", f"estimate_hyperpar_bounds raised {rb!r}", rec.context)
            else:
                want = []
                for s in subs:
                    ks = G.build_repo_kernel(s)
                    ks.pass_spatial_data(x)
                    ks.estimate_hyperpar_bounds(y)
                    want.extend(ks.bounds)
                got_b = list(K.bounds)
                okb = len(got_b) == npar and all(
                    np.allclose(np.asarray(a, float), np.asarray(b, float), rtol=1e-13, atol=0) for a, b in zip(got_b[: len(want)], want))
                rec.check(okb, "bounds-not-concatenated", lambda: f"{desc}: bounds {got_b} do not start with the components' bounds {want}", rec.context)

            # a change-point's own parameters come as (location, width) per change-point; limits the user gives for them
            # must sit at the same positions of the bounds list (the hyper-parameter vector and the labels are ordered that way)
            if spec[0] == "CP" and len(spec[2]) >= 2:
                m_cp = len(spec[2]) - 1
                ax_lo, ax_hi = float(x[:, spec[1]].min()), float(x[:, spec[1]].max())
                dxa = (ax_hi - ax_lo) or 1.0
                lb = [(ax_lo + dxa * (k_ + 0.1) / m_cp, ax_lo + dxa * (k_ + 0.9) / m_cp) for k_ in range(m_cp)]
                wb = [(dxa * 0.01 * (k_ + 1), dxa * 0.1 * (k_ + 2)) for k_ in range(m_cp)]
                K2 = guarded(lambda: C.ChangePoint(kernels=[G.build_repo_kernel(s_) for s_ in spec[2]], axis=spec[1], location_bounds=lb, width_bounds=wb))
                r2 = K2 if isinstance(K2, Raised) else guarded(lambda: (K2.pass_spatial_data(x), K2.estimate_hyperpar_bounds(y)))
                rec.count("change_point_user_limit_checks")
                if isinstance(r2, Raised):
                    rec.violation("raised", f"ChangePoint with user limits raised {r2!r}", rec.context)
                else:
                    tail = [tuple(float(v) for v in b) for b in list(K2.bounds)[-2 * m_cp:]]
                    want_t = [tuple(float(v) for v in b) for pair in zip(lb, wb) for b in pair]
                    labs2 = list(K2.hyperpar_labels)[-2 * m_cp:]
                    rec.check(tail == want_t, "bounds-not-concatenated",
                              lambda: f"{desc}: change-point limits given as locations {lb} / widths {wb}; the bounds of {labs2} are {tail}", rec.context)

        # ---- `+` builds a new object and leaves its operands as they were (a composite reused as an operand)
        if c % 3 == 0:
            k1, k2, k3, k4 = C.SquaredExponential(), C.WhiteNoise(), C.RationalQuadratic(), C.SquaredExponential()
            base = k1 + k2
            s1 = base + k3
            s2 = base + k4
            s3 = k3 + base
            rec.count("operand_reuse_checks")
            okc = [len(getattr(o, "components", [])) for o in (base, s1, s2, s3)] == [2, 3, 3, 3]
            if okc:
                for o in (base, s1, s2):
                    o.pass_spatial_data(x)
                tb = G.random_theta(("SUM", [("SE",), ("WN",)]), rng, x)
                vb = guarded(base.build_covariance, tb)
                okc = (not isinstance(vb, Raised)) and base.n_params == d + 2 and s1.n_params == 2 * d + 4 and s2.n_params == 2 * d + 3 \
                    and bool(np.allclose(vb, R.data_cov(("SUM", [("SE",), ("WN",)]), x, tb) , rtol=1e-9, atol=1e-9 * np.abs(vb).max()))
            rec.check(okc, "operand-modified-by-add",
                      "a composite used as an operand of + was modified (base = A + B; base + C; base + D): component counts "
                      f"{[len(getattr(o, 'components', [])) for o in (base, s1, s2, s3)]}", rec.context)

        # ---- mean functions
        name = str(rng.choice(G.MEANS))
        M = G.build_repo_mean(name)
        M.pass_spatial_data(x)
        tm = G.random_mean_theta(name, rng, x, 10.0 ** rng.uniform(-2, 2))
        mctx = {**rec.context, "mean": name}
        rec.check(M.n_params == R.mean_n_params(name, d), "mean-n_params", f"{name}: n_params {M.n_params}", mctx)
        bm = guarded(M.build_mean, tm)
        mg = guarded(M.mean_and_gradients, tm)
        rec.count("post:mean_and_gradients")
        if isinstance(bm, Raised) or isinstance(mg, Raised):
            rec.violation("raised", f"{name} mean raised {bm!r} / {mg!r}", mctx)
            continue
        ref_m = R.mean(name, x, tm, x)
        ms = max(np.abs(ref_m).max(), np.abs(tm[0]), 1e-300) + np.abs(tm[1:1 + d] * np.ptp(x, axis=0)).sum() if name != "Constant" else max(abs(tm[0]), 1e-300)
        rec.check(np.shape(bm) == (n,) and bool(np.abs(bm - ref_m).max() <= 1e-11 * ms), "mean-value",
                  lambda: f"{name} build_mean differs from the reference by {np.abs(np.asarray(bm) - ref_m).max():.3e}", mctx)
        rec.check(bool(np.abs(np.asarray(mg[0]) - np.asarray(bm)).max() <= 1e-13 * ms), "mean-value-and-gradient-value",
                  "mean_and_gradients returns a different mean than build_mean", mctx)
        # the mean is linear in its hyper-parameters: gradients are the columns of the design matrix
        basis = [R.mean(name, x, np.eye(len(tm))[i], x) for i in range(len(tm))]
        okg = len(mg[1]) == len(tm) and all(np.allclose(np.asarray(g), b, rtol=1e-12, atol=1e-300) for g, b in zip(mg[1], basis))
        rec.check(okg, "mean-gradient", lambda: f"{name} mean gradients differ from the design-matrix columns", mctx)
        pts = np.array([float(np.ravel(M(x[i], tm))[0]) if np.ndim(M(x[i], tm)) else float(M(x[i], tm)) for i in range(n)])
        rec.check(bool(np.abs(pts - ref_m).max() <= 1e-11 * ms), "mean-call-vs-build",
                  lambda: f"{name} mean(q) at the data points differs from build_mean by {np.abs(pts - ref_m).max():.3e}", mctx)
        # all the data points in one call
        allp = guarded(M, x, tm)
        rec.count("post:mean_call_on_a_set_of_points")
        okb = (not isinstance(allp, Raised)) and np.shape(allp) in ((), (n,)) and bool(np.abs(np.broadcast_to(np.asarray(allp, float), (n,)) - ref_m).max() <= 1e-11 * ms)
        rec.check(okb, "mean-call-on-a-set-of-points",
                  lambda: f"{name} mean(x, theta) evaluated on the {n} data points in one call gives {allp!r}; build_mean gives {bm!r}", mctx)
        labs = list(getattr(M, "hyperpar_labels", []))
        rec.check(len(labs) == len(tm), "mean-label-count", f"{name}: {len(labs)} labels for {len(tm)} parameters", mctx)

    # ------------------------------------------------ large point sets (block-wise / chunked evaluation paths, if any, are taken)
    for c in range(job.get("n_large", 1)):
        d = int(rng.choice([1, 2, 3]))
        n = int(rng.integers(*{1: (1030, 1500), 2: (730, 1000), 3: (600, 800)}[d]))
        kern = [("SE",), ("RQ",), ("SUM", [("SE",), ("RQ",)]), ("SUM", [("RQ",), ("WN",)]), ("CP", 0, [("SE",), ("RQ",)])][(c + job["j"]) % 5]
        spec = G.fix_axes(kern, rng, d)
        x = G.random_points(rng, n, d)
        theta = G.random_theta(spec, rng, x, y_scale=10.0 ** rng.uniform(-2, 2))
        desc = G.describe(spec)
        lctx = {"large_case": c, "spec": desc, "n": n, "d": d}
        rec.context = lctx
        K = guarded(G.build_repo_kernel, spec, False)
        r = K if isinstance(K, Raised) else guarded(K.pass_spatial_data, x)
        if isinstance(r, Raised):
            rec.violation("raised", f"{desc} with {n} points raised {r!r}", lctx)
            continue
        m = int(rng.integers(3, 40))
        u = x[rng.integers(0, n, size=m)] + rng.normal(size=(m, d)) * np.ptp(x, axis=0) * 0.05
        rec.case(digest("large", desc, n, d), nontrivial=True)
        rec.count("cases:large_point_set")
        Kref = R.kernel(spec, x, x, theta, n)
        scale = max(np.abs(Kref).max(), 1e-300)
        for (a_, b_, ref, tag) in ((x, x, Kref, "xx"), (u, x, None, "ux"), (x, u, None, "xu")):
            got = guarded(K, a_, b_, theta)
            rec.count("post:__call__")
            ref = R.kernel(spec, a_, b_, theta, n) if ref is None else ref
            ok = (not isinstance(got, Raised)) and np.shape(got) == ref.shape and bool(np.abs(np.asarray(got) - ref).max() <= 1e-11 * scale)
            rec.check(ok, "pairwise-value",
                      lambda: f"{desc} pairwise [{tag}] on {n} points in {d}-D differs from the documented formula "
                              f"({'raised ' + repr(got) if isinstance(got, Raised) else np.abs(np.asarray(got) - ref).max() if np.shape(got) == ref.shape else np.shape(got)})", lctx)
        B = guarded(K.build_covariance, theta)
        rec.count("post:build_covariance")
        if isinstance(B, Raised):
            rec.violation("raised", f"build_covariance raised {B!r}", lctx)
            continue
        D = np.asarray(B, float) - Kref
        off = D - np.diag(np.diag(D))
        rec.check(bool(np.abs(off).max() <= 1e-11 * scale), "builder-offdiagonal",
                  lambda: f"{desc} ({n} points): builder and pairwise evaluation differ off the diagonal by {np.abs(off).max():.3e}", lctx)
        KG = guarded(K.covariance_and_gradients, theta)
        rec.count("post:covariance_and_gradients")
        if isinstance(KG, Raised):
            rec.violation("raised", f"covariance_and_gradients raised {KG!r}", lctx)
            continue
        rec.check(bool(np.abs(np.asarray(KG[0], float) - np.asarray(B, float)).max() <= 1e-12 * scale), "value-and-gradient-value",
                  "covariance_and_gradients returns a different matrix than build_covariance", lctx)
        # one randomly chosen gradient matrix against a central difference of the builder
        npar = R.n_params(spec, n, d)
        cps = cp_positions(spec, n, d, x)
        cpi = {a for a, _ in cps} | {a + 1 for a, _ in cps}
        i = int(rng.choice([k for k in range(npar) if k not in cpi]))
        e = np.zeros(npar)
        e[i] = 1e-4
        numg = (np.asarray(K.build_covariance(theta + e), float) - np.asarray(K.build_covariance(theta - e), float)) / 2e-4
        g = np.asarray(KG[1][i], float)
        gs = max(np.abs(numg).max(), 1e-300)
        rec.count("gradient_entries_checked")
        rec.check(g.shape == (n, n) and bool(np.abs(g - numg).max() <= 1e-5 * gs + 50 * np.finfo(float).eps * scale / 1e-4), "hyperparameter-gradient",
                  lambda: f"{desc} ({n} points): d K / d theta[{i}] differs from the central difference by {np.abs(g - numg).max() if g.shape == (n, n) else g.shape} (scale {gs:.3e})", lctx)


def cp_positions(spec, n, d, x, offset=0):
    """(index of location parameter, axis range) for every change-point in the flat vector."""
    out = []
    if spec[0] == "SUM":
        pos = offset
        for s in spec[1]:
            out.extend(cp_positions(s, n, d, x, pos))
            pos += R.n_params(s, n, d)
    elif spec[0] == "CP":
        pos = offset
        for s in spec[2]:
            out.extend(cp_positions(s, n, d, x, pos))
            pos += R.n_params(s, n, d)
        width = float(np.ptp(x[:, spec[1]])) or 1.0
        for i in range(len(spec[2]) - 1):
            out.append((pos + 2 * i, width))
    return out
