"""C12 - GaussianKDE is a faithful, normalised Gaussian kernel-density estimate.

Monitors: post-conditions on the real GaussianKDE.__call__, .cdf and .h.
Oracle: exact O(n*m) kernel sums with the same bandwidth.  The estimator may omit
(pdf) or saturate (cdf) only samples at least 3.5 h away from the query (4 h cut-off
from a region midpoint that is less than h/2 from any query of the region), so
    sum_{|x-s|<3.5h} k  <=  n h sqrt(2 pi) pdf(x)  <=  sum_all k
    |cdf(x) - exact| <= (fraction of samples beyond 3.5 h) * Phi(-3.5)
which is an explicit, per-query truncation bound.
"""
import numpy as np

from vmon.rec import digest
from vmon.util import mk_rng, guarded, Raised

ID = "C12"
RULE = (
    "seeded samples (normal, heavy-tailed t/cauchy-clipped, tied, outliers, multi-modal, skewed; n = 3..20000; scale 1e-6..1e6; "
    "shift up to 1e6 sigma) x bandwidth mode (user from range/1e3 to 8 x range, rule of thumb, cross-validated incl. "
    "sub-sampled) x query sets (dense, at computed region edges +-1ulp, at samples, far outside, scalar); samples also given as (k, m) tables; "
    "two large batches per job (3000-12000 points against 3000-20000 samples in one call); "
    "non-trivial = at least one query has a sample beyond 3.5 h (truncation active); distinct = distinct (sample, h, queries)"
)
ASSUMPTIONS = ["the global numpy RNG is seeded before the sub-sampled cross-validation path (it draws from numpy.random.random)"]
TIMEOUT = {"quick": 400, "thorough": 2400}
REQUIRED = {"post:__call__": 300, "post:cdf": 200, "cases:cv": 10, "cases:user_bandwidth": 40, "cases:wide_bandwidth": 3,
            "edge_queries": 500, "affine_reruns": 60, "queries_with_truncation": 2000,
            "large_batch_evaluations": 20, "cases:sample_given_as_table": 8}

PHI35 = 0.00023262907903552504  # Phi(-3.5)


def jobs(tier, seed):
    n_jobs = 16 if tier == "quick" else 32
    return [{"name": f"kde-{j}", "seed": seed, "j": j, "n_cases": 16 if tier == "quick" else 130} for j in range(n_jobs)]


INT_TYPES = [np.int8, np.uint8, np.int16, np.uint16, np.int32, np.int64]


def gen_sample(rng):
    kind = str(rng.choice(["normal", "t3", "ties", "outliers", "bimodal", "skewed", "trimodal", "uniform", "counts"]))
    n = int(rng.choice([3, 4, 5, 8, 20, 60, 200, 1000, 5000, 20000], p=[.06, .05, .05, .08, .14, .17, .2, .15, .07, .03]))
    if kind == "counts":
        # integer-typed data (counts, ADC values, pixel values) in the narrow types such data come in, using a good part of the type's range
        dt = INT_TYPES[int(rng.integers(len(INT_TYPES)))]
        ii = np.iinfo(dt)
        lo_t, hi_t = (float(ii.min), float(ii.max)) if dt is not np.int64 else (-1e12, 1e12)   # (int64: values a float64 still resolves finely)
        span = hi_t - lo_t
        centre = lo_t + span * rng.uniform(0.3, 0.7)
        v = np.rint(centre + rng.normal(size=n) * span * rng.uniform(0.02, 0.12))
        v = np.clip(v, lo_t, hi_t)
        if np.unique(v).size < 2:
            v[0] = v[0] + 1 if v[0] < ii.max else v[0] - 1
        return f"counts:{np.dtype(dt).name}", v.astype(dt)
    if kind == "normal":
        s = rng.normal(size=n)
    elif kind == "t3":
        s = rng.standard_t(3, size=n)
    elif kind == "ties":
        s = rng.integers(0, int(rng.integers(2, 9)), size=n).astype(float)
        if np.unique(s).size < 2:
            s[0] += 1.0
    elif kind == "outliers":
        s = rng.normal(size=n)
        m = max(1, n // 25)
        s[rng.choice(n, m, replace=False)] += rng.normal(size=m) * 300
    elif kind == "bimodal":
        s = np.where(rng.random(n) < 0.35, rng.normal(-4, 0.4, n), rng.normal(3, 1.2, n))
    elif kind == "skewed":
        s = rng.gamma(2.0, 1.0, size=n)
    elif kind == "trimodal":
        s = rng.choice([-10.0, 0.0, 25.0], size=n) + rng.normal(size=n) * rng.choice([0.2, 1.0, 3.0], size=n)
    else:
        s = rng.uniform(-1, 1, size=n)
    if np.unique(s).size < 2:
        s[0] += 1.0
    scale = 10.0 ** rng.uniform(-6, 6)
    sd = max(np.std(s), 1e-300)
    shift = float(rng.choice([0.0, 0.0, 1.0, -30.0, 1e3, -1e6])) * sd * scale
    return kind, s * scale + shift


def exact(sample, h, x):
    from scipy.special import ndtr

    x = np.atleast_1d(np.asarray(x, float))
    n = sample.size
    pdf_full = np.empty(x.size)
    pdf_near = np.empty(x.size)
    cdf = np.empty(x.size)
    far_l = np.empty(x.size)
    far_r = np.empty(x.size)
    step = max(1, int(2e6 // n))
    for a in range(0, x.size, step):
        z = (x[a:a + step, None] - sample[None, :]) / h
        k = np.exp(-0.5 * z * z)
        pdf_full[a:a + step] = k.sum(axis=1)
        pdf_near[a:a + step] = np.where(np.abs(z) < 3.5, k, 0.0).sum(axis=1)
        cdf[a:a + step] = ndtr(z).mean(axis=1)
        far_l[a:a + step] = (z >= 3.5).mean(axis=1)   # samples far to the left of the query
        far_r[a:a + step] = (z <= -3.5).mean(axis=1)
    c = 1.0 / (n * h * np.sqrt(2 * np.pi))
    return pdf_full * c, pdf_near * c, cdf, far_l, far_r


def make_queries(rng, s_sorted, h):
    lo, hi = s_sorted[0], s_sorted[-1]
    rngw = hi - lo
    q = [rng.uniform(lo - 5 * h, hi + 5 * h, size=40)]
    q.append(rng.choice(s_sorted, size=min(10, s_sorted.size)))
    # region edges as the documented construction would place them (own computation), +- 1 ulp
    nl = max(int(np.log(rngw / h) / np.log(2)) + 1, 0) if rngw / h > 0 else 0
    nl = min(nl, 18)
    edges = np.linspace(lo, hi, 2**nl + 1)
    pick = edges if edges.size <= 24 else rng.choice(edges, size=24, replace=False)
    q.append(pick)
    q.append(np.nextafter(pick, -np.inf))
    q.append(np.nextafter(pick, np.inf))
    q.append(np.array([lo - 50 * h - 10 * rngw, hi + 50 * h + 10 * rngw, lo - 4.2 * h, hi + 4.2 * h, lo, hi]))
    return np.concatenate(q), 3 * pick.size + 2


def run_job(job, rec):
    from inference.pdf import GaussianKDE
    from vmon.contracts import attach

    rng = mk_rng(job["seed"], "C12", job["j"])
    eps = np.finfo(float).eps
    a_call = attach(GaussianKDE, "__call__")
    a_cdf = attach(GaussianKDE, "cdf")

    for c in range(job["n_cases"]):
        kind, s_in = gen_sample(rng)
        s = np.asarray(s_in, float)       # the harness works on the values as floats; the library is given the array as typed
        if kind.startswith("counts"):
            rec.count("cases:integer_typed_sample")
        n = s.size
        rngw = s.max() - s.min()
        mode = str(rng.choice(["user", "user", "rule", "rule", "cv"]))
        if mode == "cv" and n > 1500:
            mode = "cv_sub" if n <= 5000 else "rule"
        kw = {}
        if mode == "user":
            f = 10.0 ** rng.uniform(-4.5 if n <= 5000 else -3, np.log10(2.0)) if rng.random() < 0.85 else rng.uniform(4.1, 8.0)
            kw["bandwidth"] = float(rngw * f)
            rec.count("cases:user_bandwidth")
            if n <= 1500 and rng.random() < 0.25:
                kw["cross_validation"] = True      # both given: the bandwidth the user chose is the kernel width (cross-validation only replaces the rule of thumb)
                rec.count("cases:user_bandwidth_with_cross_validation_flag")
            if f > 4:
                rec.count("cases:wide_bandwidth")
        elif mode == "cv":
            kw["cross_validation"] = True
            rec.count("cases:cv")
        elif mode == "cv_sub":
            kw["cross_validation"] = True
            kw["max_cv_samples"] = 300
            rec.count("cases:cv")
        rec.context = {"case": c, "kind": kind, "n": n, "mode": mode, "scale": float(np.std(s)), "location": float(np.mean(s)), **{k: v for k, v in kw.items()}}
        np_seed = int(rng.integers(2**31))
        np.random.seed(np_seed)
        if n >= 6 and rng.random() < 0.12:
            # the same values as a table (chains x steps): the constructor takes the flattened values
            divs = [k for k in range(2, min(n // 2, 40) + 1) if n % k == 0]
            if divs:
                s_in = s_in.reshape(int(rng.choice(divs)), -1)
                rec.count("cases:sample_given_as_table")
                rec.context["sample_shape"] = s_in.shape
        before = s_in.copy()
        kde = guarded(GaussianKDE, s_in, **kw)
        if isinstance(kde, Raised):
            rec.violation("raised", f"GaussianKDE construction raised {kde!r}", rec.context)
            continue
        rec.check(np.array_equal(before, s_in) and before.dtype == s_in.dtype, "input-modified", "the sample array was modified", rec.context)
        h = float(kde.h)
        if not rec.check(np.isfinite(h) and h > 0, "bandwidth", f"bandwidth {h!r}", rec.context):
            continue
        if mode == "user":
            rec.check(h == kw["bandwidth"], "bandwidth", "user bandwidth not used", rec.context)
        # astronomically far away and at infinity: density 0, cumulative 0 below and 1 above
        far_ = (abs(s.min()) + abs(s.max()) + rngw + h) * 10.0 ** rng.uniform(15, 30)
        xs_ = np.array([-far_, far_, -np.inf, np.inf, -1e300, 1e300])
        pf, cf = guarded(kde, xs_), guarded(kde.cdf, xs_)
        rec.count("far_point_checks")
        okf = not isinstance(pf, Raised) and not isinstance(cf, Raised) and bool(np.all(np.asarray(pf, float) == 0)) \
            and bool(np.all(np.abs(np.asarray(cf, float) - np.array([0, 1, 0, 1, 0, 1.0])) <= 1e-12))
        rec.check(okf, "far-points", lambda: f"at x = {xs_.tolist()} the density is {pf!r} and the cumulative function {cf!r} (expected 0 and 0 / 1)", rec.context)
        ss = np.sort(s)
        q, n_edge = make_queries(rng, ss, h)
        rec.count("edge_queries", n_edge)
        if c < 2:
            rec.sample({**rec.context, "h": h, "sample_head": s[:4], "queries_head": q[:4]})

        pdf = guarded(kde, q)
        cdf = guarded(kde.cdf, q)
        if isinstance(pdf, Raised) or isinstance(cdf, Raised):
            rec.violation("raised", f"evaluation raised {pdf!r} / {cdf!r}", rec.context)
            continue
        pdf, cdf = np.asarray(pdf, float), np.asarray(cdf, float)
        if not rec.check(pdf.shape == q.shape and cdf.shape == q.shape, "shape", f"shapes {pdf.shape}, {cdf.shape} for {q.shape} queries", rec.context):
            continue
        full, near, cdf_ref, far_l, far_r = exact(s, h, q)
        trunc_active = int(((far_l + far_r) > 0).sum())
        rec.count("queries_with_truncation", trunc_active)
        rec.case(digest(s, h, q), nontrivial=trunc_active > 0)
        # rounding slack: positions are known to ~eps*|x|, which moves a kernel argument by eps*|x|/h
        pos_err = 8 * eps * max(np.abs(s).max(), np.abs(q).max()) / h
        slack = (1e-12 + 6 * pos_err) * full + 1e-300
        rec.check(bool(np.all(pdf >= 0)), "negative-density", lambda: f"negative density {pdf.min()!r}", rec.context)
        bad = (pdf > full + slack) | (pdf < near - slack - (4.0 * pos_err) * full)
        rec.check(not bad.any(), "pdf-outside-truncation-bound",
                  lambda: f"{kind}, n={n}, h={h:.4e} ({mode}): density at x={q[bad][0]!r} is {pdf[bad][0]!r}; exact KDE {full[bad][0]!r}, "
                          f"sum over samples within 3.5h {near[bad][0]!r}", rec.context)
        ctol = 1e-12 + pos_err
        badc = (cdf > cdf_ref + far_l * PHI35 + ctol) | (cdf < cdf_ref - far_r * PHI35 - ctol)
        rec.check(not badc.any(), "cdf-outside-truncation-bound",
                  lambda: f"{kind}, n={n}, h={h:.4e} ({mode}): cdf at x={q[badc][0]!r} is {cdf[badc][0]!r}; exact {cdf_ref[badc][0]!r} "
                          f"(allowed +{far_l[badc][0] * PHI35:.2e} / -{far_r[badc][0] * PHI35:.2e})", rec.context)
        order = np.argsort(q, kind="stable")
        dc = np.diff(cdf[order])
        rec.check(bool(np.all(dc >= -2 * PHI35 - ctol)), "cdf-decreasing", lambda: f"cdf decreases by {-dc.min():.3e}", rec.context)
        far_lo, far_hi = q.min(), q.max()
        rec.check(cdf[np.argmin(q)] <= 1e-12 and cdf[np.argmax(q)] >= 1 - 1e-12, "cdf-limits",
                  lambda: f"cdf far outside the data: {cdf[np.argmin(q)]!r} at {far_lo!r}, {cdf[np.argmax(q)]!r} at {far_hi!r}", rec.context)

        # cdf differences are the integral of the estimator's own density
        a, b = np.sort(rng.uniform(ss[0] - 3 * h, ss[-1] + 3 * h, size=2))
        if b - a > h and (b - a) / h > 480:
            rec.count("cdf_vs_integral_not_judged_kernels_unresolved")   # 40 nodes per bandwidth would need more than 20000 nodes: the harness's quadrature, not the library, would be judged
        elif b - a > h:
            m = int(min(max(40 * (b - a) / h, 200), 20000)) | 1
            grid = np.linspace(a, b, m)
            pg = guarded(kde, grid)
            cg = guarded(kde.cdf, np.array([a, b]))
            if not isinstance(pg, Raised) and not isinstance(cg, Raised):
                from scipy.integrate import simpson

                integ = float(simpson(np.asarray(pg), x=grid))
                rec.count("cdf_vs_integral_checks")
                # truncation of the cdf (2 Phi(-3.5)) and of the density (a fraction <= exp(-3.5^2/2) of each kernel's mass)
                tol_int = 2 * PHI35 + 2.2e-3 * integ + 1e-6
                rec.check(abs((cg[1] - cg[0]) - integ) <= tol_int,
                          "cdf-not-integral-of-pdf", lambda: f"cdf({b!r}) - cdf({a!r}) = {cg[1] - cg[0]!r} but the density integrates to {integ!r}", rec.context)

        # integer-typed evaluation points (python int, integer arrays) are legitimate inputs
        if np.abs(ss).max() < 1e15 and ss[-1] - ss[0] > 4:
            xi = np.unique(np.round(rng.uniform(ss[0] - 3 * h, ss[-1] + 3 * h, size=12)).astype(np.int64))
            pa, pb = guarded(kde, xi), guarded(kde, xi.astype(float))
            ca, cb = guarded(kde.cdf, xi), guarded(kde.cdf, xi.astype(float))
            s1, s2 = guarded(kde, int(xi[0])), guarded(kde, float(xi[0]))
            rec.count("integer_query_cases")
            okd = not any(isinstance(v, Raised) for v in (pa, pb, ca, cb, s1, s2)) and np.array_equal(np.atleast_1d(pa), np.atleast_1d(pb)) \
                and np.array_equal(np.atleast_1d(ca), np.atleast_1d(cb)) and float(s1) == float(s2)
            rec.check(okd, "depends-on-dtype-of-points", lambda: f"integer-typed evaluation points give {pa!r}, the same points as floats give {pb!r}", rec.context)

        # history: the same query array modified in place and passed again
        qq = q.copy()
        guarded(kde, qq)
        guarded(kde.cdf, qq)
        qq -= 0.11 * h
        guarded(kde, qq)
        guarded(kde.cdf, qq)
        qq += 0.48 * h
        p_again, c_again = guarded(kde, qq), guarded(kde.cdf, qq)
        p_fresh, c_fresh = guarded(kde, qq.copy()), guarded(kde.cdf, qq.copy())
        rec.count("in_place_query_updates")
        oka = not any(isinstance(v, Raised) for v in (p_again, c_again, p_fresh, c_fresh)) and np.array_equal(p_again, p_fresh) and np.array_equal(c_again, c_fresh) \
            and not np.array_equal(np.asarray(p_again), pdf)
        rec.check(oka, "stale-after-in-place-update", "evaluating the same query array after modifying it in place gives results for other points", rec.context)

        # order of the evaluation points, and scalar vs array
        perm = rng.permutation(q.size)
        pp = guarded(kde, q[perm])
        cp = guarded(kde.cdf, q[perm])
        okp = (not isinstance(pp, Raised)) and (not isinstance(cp, Raised)) and np.array_equal(np.asarray(pp), pdf[perm]) and np.array_equal(np.asarray(cp), cdf[perm])
        rec.check(okp, "query-order-dependent", "results depend on the order of the evaluation points", rec.context)
        k = int(rng.integers(q.size))
        p1, c1 = guarded(kde, float(q[k])), guarded(kde.cdf, float(q[k]))
        ok1 = (not isinstance(p1, Raised)) and (not isinstance(c1, Raised)) and np.ndim(p1) == 0 and np.ndim(c1) == 0 \
            and abs(float(p1) - pdf[k]) <= 1e-13 * max(pdf[k], 1e-300) + 1e-300 and abs(float(c1) - cdf[k]) <= 1e-13
        rec.check(ok1, "scalar-vs-array", lambda: f"scalar call at {q[k]!r} gives {p1!r}, {c1!r}; array call gives {pdf[k]!r}, {cdf[k]!r}", rec.context)

        # order of the sample
        if n <= 5000 and rng.random() < 0.6:
            np.random.seed(np_seed)
            kde2 = guarded(GaussianKDE, rng.permutation(s), **kw)
            if isinstance(kde2, Raised):
                rec.violation("raised", f"construction from the permuted sample raised {kde2!r}", rec.context)
            elif mode == "cv_sub":
                pass  # the random sub-sample differs by design
            else:
                p2 = np.asarray(kde2(q[:30]), float)
                rec.count("sample_order_reruns")
                rec.check(abs(kde2.h - h) <= 1e-12 * h and bool(np.all(np.abs(p2 - pdf[:30]) <= 1e-11 * np.maximum(pdf[:30], 1e-300) + 1e-300)),
                          "sample-order-dependent", lambda: f"h {kde2.h!r} vs {h!r}; densities differ by {np.abs(p2 - pdf[:30]).max():.3e}", rec.context)

        # shift / rescale: the estimate follows the data (all bandwidth modes)
        if n <= 5000 and mode != "cv_sub" and rng.random() < 0.7:
            al = 10.0 ** rng.uniform(-3, 3)
            be = float(rng.choice([0.0, 1.0, -100.0])) * np.std(s) * al
            t = al * s + be
            kw2 = dict(kw)
            if "bandwidth" in kw2:
                kw2["bandwidth"] = al * kw["bandwidth"]
            np.random.seed(np_seed)
            kde3 = guarded(GaussianKDE, t, **kw2)
            rec.count("affine_reruns")
            if isinstance(kde3, Raised):
                rec.violation("raised", f"construction from the rescaled sample (a={al:.3e}, b={be:.3e}) raised {kde3!r}", rec.context)
            else:
                h3 = float(kde3.h)
                rec.check(abs(h3 - al * h) <= 1e-7 * al * h, "bandwidth-not-covariant",
                          lambda: f"bandwidth {h3!r} for a*s+b with a={al!r}; expected a*h = {al * h!r} ({mode})", rec.context)
                tq = al * q[:60] + be
                p3 = np.asarray(kde3(tq), float)
                f3, n3, c3, l3, r3 = exact(t, h3, tq)
                pe3 = 8 * eps * max(np.abs(t).max(), np.abs(tq).max()) / h3
                sl3 = (1e-12 + 6 * pe3) * f3 + 1e-300
                bad3 = (p3 > f3 + sl3) | (p3 < n3 - sl3 - 4 * pe3 * f3)
                rec.check(not bad3.any(), "rescaled-pdf-outside-truncation-bound",
                          lambda: f"estimate of a*s+b (a={al:.3e}, b={be:.3e}) violates the truncation bound at {tq[bad3][0]!r}", rec.context)
                # covariance proper: a * KDE_t(a x + b) = KDE_s(x) up to both truncation errors
                lim = (full[:60] - near[:60]) + (f3 - n3) * al + 1e-7 * full[:60] + slack[:60] * 2
                rec.check(bool(np.all(np.abs(al * p3 - pdf[:60]) <= lim)), "not-affine-covariant",
                          lambda: f"a*KDE(a s + b)(a x + b) differs from KDE(s)(x) by {np.abs(al * p3 - pdf[:60]).max():.3e} (a={al:.3e}, {mode})", rec.context)

    # ------------------------------------------------ large batches: thousands of evaluation points against thousands of samples in one call
    for c in range(job.get("n_batch", 2)):
        r = mk_rng(job["seed"], "C12-batch", job["j"], c)
        if c == 0:
            n, m = int(r.choice([3000, 6000])), int(r.choice([3000, 5000]))
            s = r.normal(size=n) * 10.0 ** r.uniform(-2, 2)
            kw = {"bandwidth": float((s.max() - s.min()) * r.uniform(0.3, 2.0))}   # every sample within reach of every point
        else:
            n, m = 20000, int(r.choice([6000, 12000]))
            s = np.where(r.random(n) < 0.5, r.normal(-2, 1, n), r.normal(3, 0.5, n))
            kw = {}
        q = np.sort(r.uniform(s.min(), s.max(), size=m)) if r.random() < 0.5 else r.uniform(np.quantile(s, 0.02), np.quantile(s, 0.98), size=m)
        rec.context = {"large_batch": c, "n": n, "points": m, **kw}
        kde = guarded(GaussianKDE, s.copy(), **kw)
        if isinstance(kde, Raised):
            rec.violation("raised", f"GaussianKDE construction raised {kde!r}", rec.context)
            continue
        h = float(kde.h)
        pdf, cdf = guarded(kde, q), guarded(kde.cdf, q)
        if isinstance(pdf, Raised) or isinstance(cdf, Raised):
            rec.violation("raised", f"evaluation raised {pdf!r} / {cdf!r}", rec.context)
            continue
        pdf, cdf = np.asarray(pdf, float), np.asarray(cdf, float)
        full, near, cdf_ref, far_l, far_r = exact(s, h, q)
        rec.count("large_batch_evaluations")
        rec.count("large_batch_point_sample_pairs", n * m)
        rec.case(digest("batch", n, m, h), nontrivial=True)
        pos_err = 8 * eps * max(np.abs(s).max(), np.abs(q).max()) / h
        slack = (1e-12 + 6 * pos_err) * full + 1e-300
        bad = (pdf > full + slack) | (pdf < near - slack - (4.0 * pos_err) * full)
        rec.check(pdf.shape == q.shape and not bad.any(), "pdf-outside-truncation-bound",
                  lambda: f"batch of {m} points, n={n}, h={h:.4e}: density at x={q[bad][0]!r} is {pdf[bad][0]!r}; exact KDE {full[bad][0]!r} ({int(bad.sum())} points wrong)", rec.context)
        ctol = 1e-12 + pos_err
        badc = (cdf > cdf_ref + far_l * PHI35 + ctol) | (cdf < cdf_ref - far_r * PHI35 - ctol)
        rec.check(cdf.shape == q.shape and not badc.any(), "cdf-outside-truncation-bound",
                  lambda: f"batch of {m} points, n={n}, h={h:.4e}: cdf at x={q[badc][0]!r} is {cdf[badc][0]!r}; exact {cdf_ref[badc][0]!r} ({int(badc.sum())} points wrong)", rec.context)
        k = int(r.integers(m))
        p1 = guarded(kde, float(q[k]))
        rec.check((not isinstance(p1, Raised)) and abs(float(p1) - pdf[k]) <= 1e-13 * max(pdf[k], 1e-300) + 1e-300, "scalar-vs-array",
                  lambda: f"scalar call at {q[k]!r} gives {p1!r}; the same point in a batch of {m} gives {pdf[k]!r}", rec.context)

    rec.count("post:__call__", a_call.calls)
    rec.count("post:cdf", a_cdf.calls)
    a_call.detach()
    a_cdf.detach()
