"""Reference models for the GP modules, written from the documented formulas
(class docstrings of inference.gp.covariance / mean and Rasmussen & Williams),
with plain dense linear algebra.  Nothing here imports the repository.

A kernel is described by a *spec* (nested tuples):
    ("SE",) ("RQ",) ("WN",) ("HN",)
    ("SUM", [spec, ...])
    ("CP", axis, [spec, ...])
Hyper-parameter layout (documented):
    SE : [ln A, ln l_1 .. ln l_d]
    RQ : [ln A, ln alpha, ln l_1 .. ln l_d]
    WN : [ln sigma]
    HN : [ln sigma_1 .. ln sigma_n]          (one per data point)
    SUM: components concatenated in order
    CP : kernels' parameters in order, then (c_1, w_1, c_2, w_2, ...)
"""
import numpy as np


def n_params(spec, n, d):
    k = spec[0]
    if k == "SE":
        return d + 1
    if k == "RQ":
        return d + 2
    if k == "WN":
        return 1
    if k == "HN":
        return n
    if k == "SUM":
        return sum(n_params(s, n, d) for s in spec[1])
    if k == "CP":
        return sum(n_params(s, n, d) for s in spec[2]) + 2 * (len(spec[2]) - 1)
    raise ValueError(spec)


def has_hn(spec):
    if spec[0] == "HN":
        return True
    if spec[0] == "SUM":
        return any(has_hn(s) for s in spec[1])
    if spec[0] == "CP":
        return any(has_hn(s) for s in spec[2])
    return False


def _split(spec, theta, n, d):
    subs = spec[1] if spec[0] == "SUM" else spec[2]
    out, pos = [], 0
    for s in subs:
        m = n_params(s, n, d)
        out.append(theta[pos:pos + m])
        pos += m
    return subs, out, theta[pos:]


def _logistic(x, c, w):
    return 1.0 / (1.0 + np.exp(-(x - c) / w))


def kernel(spec, u, v, theta, n_data):
    """Noise-free covariance between point sets u (m,d) and v (k,d)."""
    u = np.asarray(u, float)
    v = np.asarray(v, float)
    d = u.shape[1]
    k = spec[0]
    if k == "SE":
        a = np.exp(theta[0])
        L = np.exp(theta[1:1 + d])
        z = ((u[:, None, :] - v[None, :, :]) / L) ** 2
        return a**2 * np.exp(-0.5 * z.sum(axis=2))
    if k == "RQ":
        a = np.exp(theta[0])
        al = np.exp(theta[1])
        L = np.exp(theta[2:2 + d])
        z = (((u[:, None, :] - v[None, :, :]) / L) ** 2).sum(axis=2)
        return a**2 * (1 + z / (2 * al)) ** (-al)
    if k in ("WN", "HN"):
        return np.zeros((u.shape[0], v.shape[0]))
    if k == "SUM":
        subs, th, _ = _split(spec, theta, n_data, d)
        return sum(kernel(s, u, v, t, n_data) for s, t in zip(subs, th))
    if k == "CP":
        axis = spec[1]
        subs, th, cp = _split(spec, theta, n_data, d)
        coeffs = _cp_coeffs(u[:, axis], v[:, axis], cp, len(subs))
        return sum(kernel(s, u, v, t, n_data) * c for s, t, c in zip(subs, th, coeffs))
    raise ValueError(spec)


def _cp_coeffs(xu, xv, cp, nk):
    a, b = [], []
    for i in range(nk - 1):
        fu = _logistic(xu, cp[2 * i], cp[2 * i + 1])
        fv = _logistic(xv, cp[2 * i], cp[2 * i + 1])
        a.append((1 - fu)[:, None] * (1 - fv)[None, :])
        b.append(fu[:, None] * fv[None, :])
    coeffs = []
    for i in range(nk):
        c = 1.0
        if i < nk - 1:
            c = c * a[i]
        if i > 0:
            c = c * b[i - 1]
        coeffs.append(c)
    return coeffs


def noise_diag(spec, x, theta):
    """Noise variances the model adds to the diagonal of the *data* covariance."""
    x = np.asarray(x, float)
    n, d = x.shape
    k = spec[0]
    if k in ("SE", "RQ"):
        return np.zeros(n)
    if k == "WN":
        return np.full(n, np.exp(2 * theta[0]))
    if k == "HN":
        return np.exp(2 * np.asarray(theta[:n]))
    if k == "SUM":
        subs, th, _ = _split(spec, theta, n, d)
        return sum(noise_diag(s, x, t) for s, t in zip(subs, th))
    if k == "CP":
        subs, th, cp = _split(spec, theta, n, d)
        coeffs = _cp_coeffs(x[:, spec[1]], x[:, spec[1]], cp, len(subs))
        return sum(noise_diag(s, x, t) * (np.diag(c) if np.ndim(c) else c) for s, t, c in zip(subs, th, coeffs))
    raise ValueError(spec)


def data_cov(spec, x, theta):
    """K(x,x) + noise variances on the diagonal (no jitter)."""
    x = np.asarray(x, float)
    return kernel(spec, x, x, theta, x.shape[0]) + np.diag(noise_diag(spec, x, theta))


# ------------------------------------------------------------------ mean functions
def mean_n_params(name, d):
    return {"Constant": 1, "Linear": 1 + d, "Quadratic": 1 + 2 * d, "UserDecay": 2, "UserBump": 2}[name]


def user_decay(q, theta, x_train):
    """A user-written mean (the documented extension point), non-linear in its second hyper-parameter:
    m(x) = c * exp(-k * s(x)),  s(x) = (x_0 - min x_0) / range of x_0 over the training inputs."""
    x0 = np.asarray(x_train, float)[:, 0]
    rng_ = np.ptp(x0) or 1.0
    sx = (np.atleast_2d(np.asarray(q, float))[:, 0] - x0.min()) / rng_
    return theta[0] * np.exp(-theta[1] * sx)


def mean(name, q, theta, x_train):
    q = np.atleast_2d(np.asarray(q, float))
    xbar = np.asarray(x_train, float).mean(axis=0)
    d = q.shape[1]
    if name == "Constant":
        return np.full(q.shape[0], theta[0])
    if name == "UserDecay":
        return user_decay(q, theta, x_train)
    if name == "UserBump":
        # a * exp(-|u|^2 / (2 w^2)), u = (x - centroid) / extent of the training inputs, per coordinate
        ext = np.ptp(np.asarray(x_train, float), axis=0)
        ext = np.where(ext > 0, ext, 1.0)
        return theta[0] * np.exp(-0.5 * (((q - xbar) / ext) ** 2).sum(axis=1) / theta[1] ** 2)
    dq = q - xbar
    if name == "Linear":
        return theta[0] + dq @ theta[1:1 + d]
    return theta[0] + dq @ theta[1:1 + d] + (dq**2) @ theta[1 + d:1 + 2 * d]


def mean_spatial_grad(name, q, theta, x_train):
    q = np.asarray(q, float)
    xbar = np.asarray(x_train, float).mean(axis=0)
    d = q.size
    if name == "Constant":
        return np.zeros(d)
    if name == "Linear":
        return np.asarray(theta[1:1 + d], float)
    return theta[1:1 + d] + 2 * (q - xbar) * theta[1 + d:1 + 2 * d]


# ------------------------------------------------------------------ GP posterior
def posterior(spec, mean_name, x, y, S, theta_mean, theta_cov, q, jitter=None):
    """Closed-form GP posterior at query points q: mean vector and full covariance.
    S is the data-noise covariance given by the user (y_err / y_cov)."""
    x = np.asarray(x, float)
    q = np.atleast_2d(np.asarray(q, float))
    n = x.shape[0]
    Kxx = data_cov(spec, x, theta_cov) + S
    if jitter is not None:
        Kxx = Kxx + np.diag(jitter)
    Kqx = kernel(spec, q, x, theta_cov, n)
    Kqq = kernel(spec, q, q, theta_cov, n)
    resid = y - mean(mean_name, x, theta_mean, x)
    sol = np.linalg.solve(Kxx, np.column_stack([resid, Kqx.T]))
    mu = mean(mean_name, q, theta_mean, x) + Kqx @ sol[:, 0]
    cov = Kqq - Kqx @ sol[:, 1:]
    return mu, cov, Kxx, Kqq


def mvn_logpdf_no_const(y, m, K):
    """log N(y; m, K) + (n/2) log 2 pi, via eigen-free plain solves."""
    sign, logdet = np.linalg.slogdet(K)
    r = y - m
    return -0.5 * r @ np.linalg.solve(K, r) - 0.5 * logdet
