"""C03 - stored log-probabilities always belong to the stored samples.

Monitors:
 * state invariant at quiescent points: after every take_step / advance / replace of a
   random call program the recorded log-probabilities are re-derived from the recorded
   samples with the *harness's* temperature (new rows, a random audit of old rows, all
   rows at the end); mode() must be a recorded row carrying the maximal recorded value;
 * independence: two samplers built from the very same input arrays are stepped in a
   random interleaving and each must equal, bit for bit, a solo twin started from the
   same generator state; the input arrays must be byte-identical afterwards;
 * exchanges: a real ParallelTempering run (worker processes) is advanced with swaps and
   the invariant is checked on every returned chain at that chain's temperature.
"""
import copy

import numpy as np

from vmon.rec import digest
from vmon.util import mk_rng, guarded, Raised, snapshot
from vmon import mc

ID = "C03"
RULE = (
    "seeded call programs (take_step runs, advance(m), replace-last as the tempering hook does) on Gibbs, Metropolis, PCA, "
    "Hamiltonian and ensemble samplers; posteriors finite everywhere (correlated Gaussian, banana, folded gamma) in 1-5 "
    "dimensions; temperatures 1 / 3 / 7.5; bounds on and off; twin pairs built from shared input arrays; tempering runs with "
    "2-4 chains and 10-40 exchange rounds, one run per job with replies 35-155 ms late in reverse index order; 5-8 replicas advanced together "
    "in a ChainPool; non-trivial = temperature != 1 or bounds or a multi-call program; "
    "distinct = distinct (sampler, configuration, program)"
)
ASSUMPTIONS = ["the user posterior is deterministic; recorded values are compared at 1e-12 relative (L * (1/T) versus L / T)"]
TIMEOUT = {"quick": 400, "thorough": 2400}
REQUIRED = {"rows_rederived": 20000, "programs": 60, "cases:tempered": 20, "cases:bounded": 20, "twin_pairs": 15,
            "mode_checks": 60, "tempering_runs": 8, "exchanged_points_checked": 10, "reloads": 10, "ensemble:failed_updates": 100, "interrupted_calls": 15, "own_generator_pairs": 30, "tempering_runs_with_late_replies": 8, "pools_of_replicas": 8}


def jobs(tier, seed):
    n_jobs = 16 if tier == "quick" else 32
    out = [{"name": f"rec-{j}", "seed": seed, "j": j, "n_programs": 24 if tier == "quick" else 90,
             "n_twins": 6 if tier == "quick" else 20, "n_pt": 2 if tier == "quick" else 6} for j in range(n_jobs)]
    if tier == "thorough":
        out.append({"name": "repo-tests", "seed": seed, "j": 999, "mode": "repo_tests"})
    return out


def make_target(rng, d):
    kind, tgt = _make_target(rng, d)
    if rng.random() < 0.3:
        tgt = mc.OffsetTarget(tgt, rng.choice([-1.0, 1.0]) * 10.0 ** rng.uniform(2, 6.5))
        kind += "+offset"
    return kind, tgt


def _make_target(rng, d):
    kind = str(rng.choice(["gauss", "banana", "gamma", "terrace"])) if d >= 2 else str(rng.choice(["gauss", "gamma", "terrace"]))
    if kind == "terrace":
        return kind, mc.TerraceTarget(rng.normal(size=d) * 0.3, radius=float(rng.uniform(0.5, 2.0)), step=float(rng.choice([0.5, 0.75, 1.0])))
    if kind == "gauss":
        A = rng.normal(size=(d, d))
        C = A @ A.T / d + 0.5 * np.eye(d)
        return kind, mc.GaussTarget(rng.normal(size=d) * 0.5, C)
    if kind == "banana":
        return kind, mc.BananaTarget(b=float(rng.uniform(0.1, 0.6)))
    return kind, mc.GammaTarget(rng.uniform(1.5, 5, size=d), rng.uniform(0.3, 2, size=d))


def check_rows(rec, ch, kind, target, T, idx, ctx, what):
    s, p = mc.full_readout(ch)
    if not rec.check(s.ndim == 2 and s.shape[0] == p.shape[0] == int(ch.chain_length), "lengths-differ",
                     lambda: f"{kind}: {s.shape[0]} stored samples, {p.shape[0]} stored log-probabilities, chain_length {ch.chain_length} ({what})", ctx):
        return None
    for k in idx:
        if k >= p.size:
            continue
        want = target(s[k]) / T
        rec.count("rows_rederived")
        ok = abs(p[k] - want) <= 1e-12 * max(abs(want), 1e-300)
        if not rec.check(ok, "probability-not-of-sample",
                         lambda: f"{kind} (T={T}): recorded log-probability [{k}] = {p[k]!r} but log-density(sample[{k}]) / T = {want!r} ({what}; chain length {p.size})", ctx):
            return None
    return s, p


def check_mode(rec, ch, kind, s, p, ctx):
    m = guarded(ch.mode)
    rec.count("mode_checks")
    if isinstance(m, Raised):
        rec.violation("raised", f"{kind}: mode() raised {m!r}", ctx)
        return
    m = np.atleast_1d(np.asarray(m, float))
    hits = np.nonzero(np.all(s == m[None, :], axis=1))[0] if m.shape == (s.shape[1],) else []
    ok = len(hits) > 0 and bool(np.any(p[hits] == p.max()))
    rec.check(ok, "mode-not-best-recorded-sample",
              lambda: f"{kind}: mode() = {m} is not a recorded sample whose recorded log-probability is the maximum {p.max()!r}", ctx)


def reload(ch, kind, target):
    """save + load, giving the copy the original's generator states."""
    import os
    import tempfile

    fd, path = tempfile.mkstemp(suffix=".npz", prefix="c03-")
    os.close(fd)
    try:
        ch.save(path)
        st = mc.rng_states(ch)
        kw = {"posterior": target}
        if kind == "hmc":
            kw["grad"] = getattr(target, "grad", None)
        cp = type(ch).load(path, **kw)
        mc.set_rng_states(cp, st)
        return cp
    finally:
        try:
            os.remove(path)
        except OSError:
            pass


def run_program(rec, ch, kind, target, T, prog, rng, ctx):
    checked = 0
    for op, m in prog:
        pctx = {**ctx, "call": f"{op}({m})"}
        L0 = int(ch.chain_length)
        if op == "reload":
            r = guarded(reload, ch, kind, target)
            if not isinstance(r, Raised):
                ch = r
                rec.count("reloads")
                continue
        elif op == "interrupt":
            # the run is interrupted from inside the user's posterior (Ctrl-C, or a posterior that fails once) at a random evaluation;
            # the caller keeps the sampler and goes on: every recorded row must still be a (sample, its log-probability) pair
            target.arm(m)
            try:
                if kind == "ensemble":
                    ch.advance(6)
                else:
                    ch.advance(40) if rng.random() < 0.5 else [ch.take_step() for _ in range(40)]
                r = None
            except mc.InjectedInterrupt:
                r = None
                rec.count("interrupted_calls")
            except Exception as exc:  # noqa: BLE001
                r = Raised(exc)
            finally:
                target.disarm()
        elif op == "readout":
            # read-outs and diagnostics in between: whatever they hand out or compute, the record stays a record of (sample, its log-probability) pairs
            def read_all():
                L_ = int(ch.chain_length)
                ch.get_sample(burn=0, thin=1)
                ch.get_probabilities(burn=0, thin=1)
                ch.get_parameter(0, burn=0, thin=1)
                if L_ >= 3:
                    ch.get_interval(interval=0.9, burn=0, thin=1)
                    ch.get_interval(interval=0.5, burn=0, thin=2, samples=max(L_ // 4, 1))
                ch.mode()
            r = guarded(read_all) if not (kind == "ensemble" and ch.sample is None) else None
            rec.count("readout_ops")
        elif op == "limits":
            # a limit request in mid-run (Gibbs / Metropolis): the new limits may or may not contain the current value; the record is not touched
            i_ = int(rng.integers(ch.n_parameters))
            cur_ = float(np.asarray(ch.get_last(), float)[i_])
            a_ = cur_ + float(rng.uniform(-2, 2))
            r = guarded(ch.set_boundaries, i_, (a_, a_ + float(rng.uniform(0.5, 3))))
            rec.count("limit_ops_in_programs")
        elif op == "steps":
            r = guarded(lambda: [ch.take_step() for _ in range(m)])
        elif op == "advance":
            r = guarded(ch.advance, m)
        else:  # the hook used by parallel tempering: install a point and its re-tempered probability
            new = np.asarray(ch.get_last(), float) * 0.9 + 0.05
            if getattr(ch, "bounds", None) is not None:
                new = np.clip(new, ch.bounds.lower, ch.bounds.upper)
            r = guarded(ch.replace_last, new.copy())
            if not isinstance(r, Raised):
                ch.probs[-1] = target(new) * ch.inv_temp
        if isinstance(r, Raised):
            rec.violation("raised", f"{kind}: {op}({m}) raised {r!r}", pctx)
            return False
        L1 = int(ch.chain_length)
        new_rows = list(range(max(L0 - 1, 0), L1))
        audit = [int(v) for v in rng.integers(0, max(L1, 1), size=min(32, L1))]
        if kind == "ensemble" and ch.sample is None:
            continue
        out = check_rows(rec, ch, kind, target, T, new_rows[-400:] + audit + [0], pctx, f"after {op}({m})")
        if out is None:
            return False
        checked += 1
    if kind == "ensemble":
        wp = np.asarray(ch.walker_probs, float)
        ws = np.asarray(ch.walker_positions, float)
        want = np.array([target(w) for w in ws])
        rec.check(wp.shape == want.shape and bool(np.all(np.abs(wp - want) <= 1e-12 * np.maximum(np.abs(want), 1e-300))), "walker-probability-not-of-walker",
                  lambda: f"ensemble: walker log-probabilities {wp} do not belong to the walker positions (expected {want})", ctx)
        if ch.sample is None:
            return True
    s, p = mc.full_readout(ch)
    out = check_rows(rec, ch, kind, target, T, range(p.size), ctx, "final audit of every row")
    if out is None:
        return False
    check_mode(rec, ch, kind, out[0], out[1], ctx)
    return True


def random_program(rng, kind):
    prog = []
    for _ in range(int(rng.integers(1, 5))):
        if kind == "ensemble":
            if rng.random() < 0.15:
                prog.append(("interrupt", int(rng.integers(1, 40))))
            if rng.random() < 0.3:
                prog.append(("readout", 0))
            prog.append(("advance", int(rng.choice([0, 1, 3, 8]))))
        else:
            r = rng.random()
            if r < 0.4:
                prog.append(("steps", int(rng.integers(1, 30))))
            elif r < 0.7:
                prog.append(("advance", int(rng.choice([0, 1, 7, 40, 101, 130]))))
            elif r < 0.76:
                prog.append(("replace", 0))
            elif r < 0.82:
                prog.append(("readout", 0))
                if kind in ("gibbs", "metropolis") and rng.random() < 0.6:
                    prog.append(("limits", 0))
                    prog.append(("steps", int(rng.integers(1, 10))))
            elif r < 0.92:
                prog.append(("interrupt", int(rng.integers(1, 60))))
                prog.append(("steps", int(rng.integers(2, 20))))
            else:
                prog.append(("reload", 0))
                prog.append(("steps", int(rng.integers(2, 20))))
    return prog


def build(kind, target, tkind, d, rng, T, bounded, seed, shared=None, few_attempts=0):
    """Returns (sampler, dict of input arrays handed to the constructor)."""
    inputs = shared or {}
    if not inputs:
        inputs["start"] = np.abs(rng.normal(size=d)) * 0.5 + 0.1 if tkind.startswith("gamma") else rng.normal(size=d) * 0.5
        inputs["widths"] = rng.uniform(0.3, 2.0, size=d)
        if bounded:
            inputs["lower"] = inputs["start"] - rng.uniform(0.5, 3, size=d)
            inputs["upper"] = inputs["start"] + rng.uniform(0.5, 3, size=d)
        inputs["inverse_mass"] = rng.uniform(0.5, 2.0, size=d)
        nw = max(2 * d + 2, 6)
        pos = inputs["start"][None, :] + rng.normal(size=(nw, d)) * 0.5
        if bounded:
            pos = inputs["lower"] + (inputs["upper"] - inputs["lower"]) * rng.uniform(0.05, 0.95, size=(nw, d))
        inputs["positions"] = pos
        if not bounded and rng.random() < 0.25:
            # integer-typed starting values (start=[1, 0, 2] is what a user types): same numbers, must behave as floats
            inputs["start"] = (np.rint(inputs["start"] * 4) + (1 if tkind.startswith("gamma") else 0)).astype(np.int64)
            pi = np.rint(pos * 6) + (np.arange(nw)[:, None] == np.arange(d)[None, :] + 1)   # keeps the walkers affinely independent
            inputs["positions"] = (np.abs(pi) + 1 if tkind.startswith("gamma") else pi).astype(np.int64)
    from inference.mcmc import GibbsChain, PcaChain, HamiltonianChain, EnsembleSampler
    from inference.mcmc.gibbs import MetropolisChain

    b = (inputs["lower"], inputs["upper"]) if bounded else None
    if kind in ("gibbs", "metropolis"):
        cls = GibbsChain if kind == "gibbs" else MetropolisChain
        ch = cls(posterior=target, start=inputs["start"], widths=inputs["widths"], temperature=T, display_progress=False)
        if bounded:
            for i in range(d):
                ch.set_boundaries(i, (inputs["lower"][i], inputs["upper"][i]))
    elif kind == "pca":
        ch = PcaChain(posterior=target, start=inputs["start"], widths=inputs["widths"], temperature=T, bounds=b, display_progress=False)
    elif kind == "hmc":
        ch = HamiltonianChain(posterior=target, start=inputs["start"], grad=getattr(target, "grad", None), temperature=T, bounds=b,
                              inverse_mass=inputs["inverse_mass"], epsilon=0.15, display_progress=False)
    else:
        ch = EnsembleSampler(posterior=target, starting_positions=inputs["positions"], bounds=b, display_progress=False)
        if few_attempts:
            ch.max_attempts = int(few_attempts)   # public setting (saved and restored): walkers then often exhaust their attempts and stay put
    return mc.seed_sampler(ch, seed), inputs


def run_job(job, rec):
    if job.get("mode") == "repo_tests":
        from vmon import repotests

        return repotests.run(rec, ID)
    rng = mk_rng(job["seed"], "C03", job["j"])

    # ------------------------------------------------ invariant along call programs
    for c in range(job["n_programs"]):
        kind = mc.KINDS[(c + job["j"]) % len(mc.KINDS)]
        d = int(rng.choice([1, 2, 3, 5]))
        tkind, target = make_target(rng, d)
        target = mc.Interruptible(target)
        T = 1.0 if kind == "ensemble" else float(rng.choice([1.0, 3.0, 7.5, rng.uniform(1.05, 9.9)]))
        bounded = bool(rng.random() < 0.45)
        ctx = {"program": c, "kind": kind, "d": d, "target": tkind, "T": T, "bounded": bounded}
        rec.context = ctx
        few = int(rng.choice([0, 1, 2, 3])) if kind == "ensemble" else 0
        built = guarded(build, kind, target, tkind, d, rng, T, bounded, int(rng.integers(2**31)), few_attempts=few)
        if isinstance(built, Raised):
            rec.violation("raised", f"{kind} construction raised {built!r}", ctx)
            continue
        ch, b_inputs = built
        ctx["max_attempts"] = few or "default"

        prog = random_program(rng, kind)
        rec.count("programs")
        if np.asarray(b_inputs["start"]).dtype.kind == "i":
            rec.count("cases:integer_typed_start")
        if T != 1.0:
            rec.count("cases:tempered")
        if bounded:
            rec.count("cases:bounded")
        rec.case(digest(kind, d, tkind, T, bounded, prog), nontrivial=T != 1.0 or bounded or len(prog) > 1)
        if c < 2:
            rec.sample({**ctx, "program": prog})
        if kind != "ensemble":
            check_rows(rec, ch, kind, target, T, [0], ctx, "starting point")
        run_program(rec, ch, kind, target, T, prog, rng, {**ctx, "program": prog})
        if kind == "ensemble":
            rec.count("ensemble:failed_updates", int(np.sum(getattr(ch, "failed_updates", [0]))))

    # ------------------------------------------------ samplers built from shared inputs evolve independently
    for c in range(job["n_twins"]):
        kind = mc.KINDS[(c + job["j"]) % len(mc.KINDS)]
        d = int(rng.choice([1, 2, 3]))
        tkind, target = make_target(rng, d)
        T = 1.0 if kind == "ensemble" else float(rng.choice([1.0, 3.0]))
        bounded = bool(rng.random() < 0.5)
        ctx = {"twins": c, "kind": kind, "d": d, "target": tkind, "T": T, "bounded": bounded}
        rec.context = ctx
        seeds = [int(rng.integers(2**31)) for _ in range(2)]
        try:
            A, inputs = build(kind, target, tkind, d, rng, T, bounded, seeds[0])
            snaps = {k: snapshot(v) for k, v in inputs.items()}
            B, _ = build(kind, target, tkind, d, rng, T, bounded, seeds[1], shared=inputs)
            # solo twins from private copies of the inputs and the same generator states
            priv = {k: v.copy() for k, v in inputs.items()}
            A2, _ = build(kind, target, tkind, d, rng, T, bounded, seeds[0], shared=priv)
            B2, _ = build(kind, target, tkind, d, rng, T, bounded, seeds[1], shared={k: v.copy() for k, v in priv.items()})
        except Exception as exc:  # noqa: BLE001
            rec.violation("raised", f"{kind}: construction from shared inputs raised {exc!r}", ctx)
            continue
        rec.count("twin_pairs")
        rec.case(digest("twins", kind, d, tkind, T, bounded), nontrivial=True)
        n_ops = int(rng.integers(4, 12))
        order = [int(v) for v in rng.integers(0, 2, size=n_ops)]
        amounts = [int(rng.integers(1, 6)) for _ in range(n_ops)]

        def go(obj, m):
            if kind == "ensemble":
                obj.advance(m)
            else:
                for _ in range(m):
                    obj.take_step()

        r = guarded(lambda: [go((A, B)[w], m) for w, m in zip(order, amounts)])
        r2 = guarded(lambda: ([go(A2, m) for w, m in zip(order, amounts) if w == 0], [go(B2, m) for w, m in zip(order, amounts) if w == 1]))
        if isinstance(r, Raised) or isinstance(r2, Raised):
            rec.violation("raised", f"{kind}: stepping twins raised {r!r} / {r2!r}", ctx)
            continue
        for name, x, y, used in (("first", A, A2, 0 in order), ("second", B, B2, 1 in order)):
            if kind == "ensemble" and not used:
                continue
            sx, px = mc.full_readout(x)
            sy, py = mc.full_readout(y)
            rec.check(sx.shape == sy.shape and np.array_equal(sx, sy) and np.array_equal(px, py), "samplers-share-state",
                      lambda: f"{kind}: the {name} of two samplers built from the same input arrays does not evolve as it does alone (interleaving {order})", ctx)
        rec.check(all(snapshot(inputs[k]) == snaps[k] for k in inputs), "input-arrays-modified",
                  lambda: f"{kind}: input arrays changed: {[k for k in inputs if snapshot(inputs[k]) != snaps[k]]}", ctx)

    # ------------------------------------------------ independence with the samplers' own generators (nothing re-seeded by the harness)
    for c in range(job.get("n_own_rng", 4)):
        kind = mc.KINDS[(c + job["j"]) % len(mc.KINDS)]
        d = int(rng.choice([1, 2]))
        tkind, target = _make_target(rng, d)
        ctx = {"own_generators": c, "kind": kind, "d": d, "target": tkind}
        rec.context = ctx
        try:
            A, inputs = build(kind, target, tkind, d, rng, 1.0, False, 0)
            B, _ = build(kind, target, tkind, d, rng, 1.0, False, 0, shared=inputs)
        except Exception as exc:  # noqa: BLE001
            rec.violation("raised", f"{kind}: construction raised {exc!r}", ctx)
            continue
        # build() seeds the generators; undo that: fresh objects exactly as the library makes them
        from inference.mcmc import GibbsChain, PcaChain, HamiltonianChain, EnsembleSampler
        from inference.mcmc.gibbs import MetropolisChain

        def fresh():
            if kind in ("gibbs", "metropolis"):
                return (GibbsChain if kind == "gibbs" else MetropolisChain)(posterior=target, start=inputs["start"], widths=inputs["widths"], display_progress=False)
            if kind == "pca":
                return PcaChain(posterior=target, start=inputs["start"], widths=inputs["widths"], display_progress=False)
            if kind == "hmc":
                return HamiltonianChain(posterior=target, start=inputs["start"], grad=getattr(target, "grad", None), epsilon=0.15, display_progress=False)
            return EnsembleSampler(posterior=target, starting_positions=inputs["positions"], display_progress=False)

        pairs = guarded(lambda: (fresh(), fresh()))
        if isinstance(pairs, Raised):
            rec.violation("raised", f"{kind}: construction raised {pairs!r}", ctx)
            continue
        # two copies of the pair (a deep copy keeps whatever the two samplers share, shared): in the first the other sampler is used
        # in between, in the second it is not; the sampler under observation must not notice
        P1, P2 = copy.deepcopy(pairs), copy.deepcopy(pairs)
        step = (lambda o, m: o.advance(m)) if kind == "ensemble" else (lambda o, m: [o.take_step() for _ in range(m)])
        r = guarded(lambda: (step(P1[0], 7), step(P1[1], 9), step(P2[1], 9)))
        if isinstance(r, Raised):
            rec.violation("raised", f"{kind}: stepping raised {r!r}", ctx)
            continue
        rec.count("own_generator_pairs")
        sa, pa = mc.full_readout(P1[1])
        sb, pb = mc.full_readout(P2[1])
        rec.check(np.array_equal(sa, sb) and np.array_equal(pa, pb), "samplers-share-state",
                  lambda: f"{kind}: with the generators the library itself creates, a sampler evolves differently when another sampler built from the same inputs is stepped first", ctx)
        # and two samplers built alike do not produce the same trajectory
        sc_, _ = mc.full_readout(P1[0])
        n_ = min(len(sc_), len(sa))
        rec.check(n_ < 3 or not np.array_equal(sc_[1:n_], sa[1:n_]), "samplers-share-state",
                  lambda: f"{kind}: two samplers built from the same inputs produce identical trajectories", ctx)

    # ------------------------------------------------ replicas built from the same arrays and advanced together in a pool of worker processes
    from inference.mcmc import ChainPool

    for c in range(job.get("n_pool", 1)):
        kind = ["hmc", "pca", "gibbs", "ensemble"][(c + job["j"]) % 4]
        d = int(rng.choice([1, 2]))
        tkind, target = _make_target(rng, d)
        n_rep = int(rng.choice([5, 8]))
        ctx = {"pool_of_replicas": c, "kind": kind, "d": d, "target": tkind, "replicas": n_rep}
        rec.context = ctx
        try:
            first, inputs = build(kind, target, tkind, d, rng, 1.0, False, int(rng.integers(2**31)))
            reps = [first] + [build(kind, target, tkind, d, rng, 1.0, False, int(rng.integers(2**31)), shared=inputs)[0] for _ in range(n_rep - 1)]
        except Exception as exc:  # noqa: BLE001
            rec.violation("raised", f"{kind}: construction raised {exc!r}", ctx)
            continue
        snaps = {k: snapshot(v) for k, v in inputs.items() if isinstance(v, np.ndarray)}
        pool = guarded(ChainPool, reps)
        if isinstance(pool, Raised):
            rec.violation("raised", f"ChainPool construction raised {pool!r}", ctx)
            continue
        try:
            ok_run = True
            for rnd in range(int(rng.integers(3, 7))):
                before_len = [0 if (kind == "ensemble" and getattr(ch, "sample", None) is None) else int(mc.full_readout(ch)[0].shape[0]) for ch in pool.chains]
                r = guarded(pool.advance, int(rng.integers(2, 5)))     # (short advances: one worker serves several replicas)
                if isinstance(r, Raised):
                    rec.violation("raised", f"{kind}: ChainPool.advance raised {r!r}", ctx)
                    ok_run = False
                    break
                # what each replica added in this call: no two replicas (distinct generators) add the same points
                seg = [mc.full_readout(ch)[0][b:] for ch, b in zip(pool.chains, before_len)]
                twin = [(i, j) for i in range(n_rep) for j in range(i + 1, n_rep)
                        if seg[i].shape == seg[j].shape and seg[i].shape[0] >= 2 and np.array_equal(seg[i], seg[j])]
                rec.check(not twin, "samplers-share-state",
                          lambda: f"{kind}: in call {rnd} of ChainPool.advance the replicas {twin[:3]} (built from the same inputs, own generators with different seeds) "
                                  "added identical points", ctx)
            if ok_run:
                rec.count("pools_of_replicas")
                outs = list(pool.chains)
                traj = []
                for ch in outs:
                    got = check_rows(rec, ch, kind, target, 1.0, range(int(ch.chain_length)) if kind != "ensemble" else None, ctx, "after pool advances") \
                        if kind != "ensemble" else None
                    s_, p_ = mc.full_readout(ch)
                    traj.append(s_)
                same = [(i, j) for i in range(n_rep) for j in range(i + 1, n_rep)
                        if traj[i].shape == traj[j].shape and traj[i].shape[0] >= 4 and np.array_equal(traj[i][2:], traj[j][2:])]
                rec.check(not same, "samplers-share-state",
                          lambda: f"{kind}: replicas {same[:3]} built from the same inputs (own generators, different seeds) and advanced in one ChainPool have identical trajectories", ctx)
                rec.check(all(snapshot(inputs[k]) == snaps[k] for k in snaps), "input-arrays-modified",
                          lambda: f"{kind}: input arrays changed by the pool run", ctx)
        finally:
            try:
                pool.pool.terminate()
            except Exception:
                pass

    # ------------------------------------------------ tempering with workers that answer late and out of index order
    # (machinery shared with C08; only what C03 is about is reported here: every chain's record stays the record of its own points)
    from vmon.props import c08
    from vmon.rec import OnlyKeys

    for c in range(1 if job["n_pt"] else 0):
        r = mk_rng(job["seed"], "C03-pt-late", job["j"], c)
        sp = c08.make_spec(r, 0, 0)
        n = int(r.choice([4, 5, 6]))
        sp.update(n=n, kinds=[str(r.choice(["gibbs", "pca", "hmc"]))] * n, ladder="tight",
                  temps=[float(t) for t in np.cumprod([1.0] + list(r.uniform(1.3, 2.5, size=n - 1)))],
                  starts=(r.normal(size=(n, sp["d"])) * 1.5).tolist(), seeds=[int(v) for v in r.integers(2**31, size=n + 2)], display=False,
                  program=[("take_steps", 2), ("swap", 0)] * int(r.integers(6, 11)))
        sch = {"name": "reverse_replies", "seed": int(r.integers(2**31)), "reply": [0.03 * (n - 1 - i) + 0.005 for i in range(n)]}
        pctx = {"tempering": "late replies", "chains": n, "kind": sp["kinds"][0], "reply_delays": sch["reply"]}
        rec.context = pctx
        view = OnlyKeys(rec, {"probability-not-of-sample", "exchange-not-retempered", "exchange-wrong-position", "bystander-changed",
                              "exchange-changed-history", "exchange-changed-length", "returned-chain-incomplete", "raised"}, prefix="pt-late:")
        o = c08.execute(sp, sch, view, monitor=True, ctx=pctx)
        if o.error and not rec.counters.get("violations:raised"):
            rec.violation("raised", f"tempering run failed: {o.error}", pctx)
        else:
            rec.count("tempering_runs_with_late_replies")

    # ------------------------------------------------ points installed by parallel-tempering exchanges
    from inference.mcmc import ParallelTempering

    for c in range(job["n_pt"]):
        n_ch = int(rng.choice([2, 3, 4]))
        d = int(rng.choice([1, 2]))
        tkind, target = make_target(rng, d)
        temps = [1.0] + sorted(float(v) for v in rng.uniform(1.3, 8.0, size=n_ch - 1))
        if rng.random() < 0.45:
            # a ladder handed over in another order is legitimate (the library only warns about it)
            temps = [temps[i] for i in rng.permutation(n_ch)]
            rec.count("cases:unsorted_ladder")
        kind = str(rng.choice(["gibbs", "pca", "hmc"]))
        ctx = {"tempering": c, "kind": kind, "d": d, "target": tkind, "temperatures": temps}
        rec.context = ctx
        chains = []
        start = np.abs(rng.normal(size=d)) * 0.5 + 0.1
        for i, T in enumerate(temps):
            ch, _ = build(kind, target, tkind, d, rng, T, False, int(rng.integers(2**31)), shared={
                "start": start, "widths": np.full(d, 1.0), "inverse_mass": np.ones(d), "positions": None})
            chains.append(ch)
        pt = guarded(ParallelTempering, chains)
        if isinstance(pt, Raised):
            rec.violation("raised", f"ParallelTempering construction raised {pt!r}", ctx)
            continue
        try:
            pt.rng = np.random.default_rng(int(rng.integers(2**31)))
            rounds = int(rng.integers(10, 41))
            r = guarded(lambda: [(pt.take_steps(int(rng.integers(1, 4))), pt.swap()) for _ in range(rounds)])
            if isinstance(r, Raised):
                rec.violation("raised", f"tempering run raised {r!r}", ctx)
                continue
            out = guarded(pt.return_chains)
            if isinstance(out, Raised):
                rec.violation("raised", f"return_chains raised {out!r}", ctx)
                continue
            rec.count("tempering_runs")
            rec.count("exchanged_points_checked", int(np.asarray(pt.successful_swaps).sum()))
            rec.case(digest("pt", kind, temps, rounds), nontrivial=True)
            for ch, T in zip(out, temps):
                # each returned chain is judged at its own temperature (the harness's value for the chain object that carries it)
                own = 1.0 / float(ch.inv_temp)
                if any(abs(own - t) <= 1e-12 * t for t in temps):
                    T = min(temps, key=lambda t: abs(t - own))
                got = check_rows(rec, ch, kind, target, T, range(int(ch.chain_length)), {**ctx, "chain_T": T}, "after exchanges")
                if got is not None:
                    check_mode(rec, ch, kind, got[0], got[1], ctx)
        finally:
            try:
                pt.shutdown()
            except Exception:
                pass
            for p in pt.processes:
                if p.is_alive():
                    p.terminate()
