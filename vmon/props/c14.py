"""C14 - burn, thin and interval read-outs select exactly the documented samples.

Monitors: post-conditions on get_parameter / get_sample / get_probabilities /
get_marginal / get_interval of real sampler objects.  Oracle: the oracle's own
slicing [burn::thin] and top-fraction selection computed from the burn=0, thin=1
read-out taken at the same moment; histories include steps and replace_last
between read-outs.
"""
import numpy as np

from vmon.rec import digest
from vmon.util import mk_rng, guarded, Raised
from vmon import mc

ID = "C14"
RULE = (
    "seeded chains (Gibbs, Metropolis, PCA, Hamiltonian, ensemble; 1-4 parameters; lengths 1-400, plus two production-sized chains per job with 700-32000 rows read out with short burn-in, thin 1-3 and fractions such as 0.683, 0.9545, 0.9973) x burn 0..length+2 x thin "
    "1..length x interval fractions x requested counts; read-outs repeated after further steps and after replace_last; "
    "non-trivial = burn > 0 or thin > 1 or a requested count; distinct = distinct (chain, burn, thin, fraction, count)"
)
ASSUMPTIONS = ["rows are matched to the full chain by exact equality (chains of continuous draws have distinct rows)"]
TIMEOUT = {"quick": 300, "thorough": 1800}
REQUIRED = {"post:get_sample": 400, "post:get_interval": 300, "cases:zero_retained": 20, "cases:one_retained": 20,
            "cases:interval_with_count": 100, "cases:after_replace_last": 20, "post:get_marginal": 40, "cases:read_out_after_interruption": 15,
            "cases:long_chain": 20, "post:get_interval_count_sweep": 1500, "cases:long_chain_over_20000_rows": 4}


def jobs(tier, seed):
    n_jobs = 16 if tier == "quick" else 32
    return [{"name": f"read-{j}", "seed": seed, "j": j, "n_chains": 24 if tier == "quick" else 120} for j in range(n_jobs)]


def check_readouts(rec, ch, kind, rng, ctx, n_combos, long_run=False):
    d = ch.n_parameters
    lookup = None
    full_s, full_p = mc.full_readout(ch)
    L = full_p.size
    if not rec.check(full_s.shape == (L, d), "full-readout-shape", f"full read-out shapes {full_s.shape}, {full_p.shape}", ctx):
        return
    for _ in range(n_combos):
        burn = int(rng.choice([0, 1, rng.integers(0, L + 3), max(L - 1, 0), L, L + 2]))
        thin = int(rng.choice([1, 2, 3, rng.integers(1, L + 1), L, max(L - 1, 1)]))
        if long_run:
            # production-sized read-outs: a short burn-in, little thinning, thousands of retained rows
            burn = int(rng.choice([0, 1, rng.integers(0, L // 4 + 1)]))
            thin = int(rng.choice([1, 1, 2, 3]))
        cctx = {**ctx, "length": L, "burn": burn, "thin": thin}
        idx = np.arange(L)[burn::thin]
        k = idx.size
        rec.case(digest(kind, full_s, burn, thin), nontrivial=burn > 0 or thin > 1)
        if k == 0:
            rec.count("cases:zero_retained")
        if k == 1:
            rec.count("cases:one_retained")
        s = guarded(ch.get_sample, burn=burn, thin=thin)
        p = guarded(ch.get_probabilities, burn=burn, thin=thin)
        rec.count("post:get_sample")
        if isinstance(s, Raised) or isinstance(p, Raised):
            rec.violation("raised", f"{kind}: get_sample/get_probabilities raised {s!r} / {p!r}", cctx)
            continue
        s, p = np.asarray(s), np.asarray(p)
        ok_s = s.shape[0] == k and (k == 0 or (s.shape == (k, d) and np.array_equal(s, full_s[idx])))
        rec.check(ok_s, "get_sample", lambda: f"{kind}: get_sample(burn={burn}, thin={thin}) has shape {s.shape}; expected the {k} rows {idx[:5]}... of the chain of length {L}", cctx)
        ok_p = p.shape == (k,) and np.array_equal(p, full_p[idx])
        rec.check(ok_p, "get_probabilities", lambda: f"{kind}: get_probabilities(burn={burn}, thin={thin}) has shape {p.shape}; expected entries {idx[:5]}...", cctx)
        for i in range(d):
            v = guarded(ch.get_parameter, i, burn=burn, thin=thin)
            rec.count("post:get_parameter")
            ok_v = (not isinstance(v, Raised)) and np.shape(v) == (k,) and np.array_equal(np.asarray(v), full_s[idx, i])
            rec.check(ok_v, "get_parameter", lambda: f"{kind}: get_parameter({i}, burn={burn}, thin={thin}) = shape {np.shape(v)}; expected the {k} entries {idx[:5]}... of column {i}", cctx)
        # marginal estimate is built from exactly those values
        if k >= 3 and np.unique(full_s[idx, 0]).size >= 3 and rng.random() < (0.35 if not long_run else 1.0):
            i = int(rng.integers(d))
            mg = guarded(ch.get_marginal, i, burn=burn, thin=thin)
            rec.count("post:get_marginal")
            ok_m = (not isinstance(mg, Raised)) and np.array_equal(np.sort(np.asarray(mg.sample, float).ravel()), np.sort(full_s[idx, i]))
            rec.check(ok_m, "get_marginal", lambda: f"{kind}: get_marginal({i}, burn={burn}, thin={thin}) was not built from the documented selection", cctx)

        if 30 <= k <= 200 and np.unique(full_s[idx, 0]).size >= 20 and rng.random() < 0.08:
            i = int(rng.integers(d))
            mg = guarded(ch.get_marginal, i, burn=burn, thin=thin, unimodal=True)
            rec.count("post:get_marginal_unimodal")
            ok_m = (not isinstance(mg, Raised)) and np.array_equal(np.sort(np.asarray(mg.sample, float).ravel()), np.sort(full_s[idx, i]))
            rec.check(ok_m, "get_marginal", lambda: f"{kind}: get_marginal({i}, burn={burn}, thin={thin}, unimodal=True) was not built from the documented selection "
                      f"({np.asarray(mg.sample).size if not isinstance(mg, Raised) else mg} values, expected {k})", cctx)

        # highest-density read-out
        if L - burn >= 1:
            frac = float(rng.choice([0.95, 0.5, rng.uniform(0.05, 0.999), 0.999, 0.1, 0.0, 1.0, 1e-17]))   # (0 and 1: nothing / everything)
            if long_run:
                frac = float(rng.choice([0.683, 0.9545, 0.9973, 0.995, rng.uniform(0.05, 0.9999), rng.uniform(0.9, 0.9999)]))
            want_n = None if rng.random() < 0.5 else int(rng.choice([1, 2, 5, rng.integers(1, max(L, 2)), L + 5]))
            ictx = {**cctx, "interval": frac, "samples": want_n}
            kw = dict(interval=frac, burn=burn, thin=thin)
            if want_n is not None:
                kw["samples"] = want_n
                rec.count("cases:interval_with_count")
            out = guarded(ch.get_interval, **kw)
            rec.count("post:get_interval")
            rec.case(digest(kind, full_s, burn, thin, frac, want_n), nontrivial=True)
            if isinstance(out, Raised):
                rec.violation("raised", f"{kind}: get_interval({kw}) raised {out!r}", ictx)
                continue
            rs, rp = np.asarray(out[0]), np.asarray(out[1])
            if not rec.check(rs.ndim == 2 and rp.ndim == 1 and rs.shape[0] == rp.size and (rs.shape[1] == d or rs.size == 0), "interval-shape",
                             lambda: f"{kind}: get_interval returned shapes {rs.shape}, {rp.shape} (samples={want_n})", ictx):
                continue
            nb = L - burn  # burned, un-thinned length
            t_eff = thin if want_n is None else max(nb // want_n, 1)   # documented: a count overrides thin
            sel = np.arange(L)[burn::t_eff]
            n_sel = sel.size
            order = sel[np.argsort(full_p[sel], kind="stable")]
            # the requested top fraction: all but the int(n*(1-f)) lowest (one row of slack for the rounding convention)
            cut = int(n_sel * (1 - frac))
            strict_top = order[cut:]
            # with tied log-probabilities (flat or terraced posteriors) which of the tied rows belong to the top fraction is open:
            # any row at least as probable as the lowest admissible one may be returned, every row more probable than the cut must be
            p_low = full_p[order[max(cut - 1, 0)]] if n_sel else -np.inf
            top = set(int(i) for i in sel if full_p[i] >= p_low)
            must = [int(i) for i in sel if n_sel and cut < n_sel and full_p[i] > full_p[order[min(cut + 1, n_sel - 1)]]]
            # map returned rows back to chain indices
            rows_ok, used = True, []
            if lookup is None:
                lookup = {}
                for h in range(L):
                    lookup.setdefault((full_p[h].tobytes(), full_s[h].tobytes()), []).append(h)
            taken = set()
            for r, q in zip(rs, rp):
                hit = lookup.get((np.float64(q).tobytes(), np.ascontiguousarray(r, dtype=float).tobytes()), [])
                hit = [h for h in hit if h in top and h not in taken]
                if not hit:
                    rows_ok = False
                    break
                used.append(hit[0])
                taken.add(hit[0])
            rec.check(rows_ok, "interval-rows",
                      lambda: f"{kind}: get_interval(interval={frac:.4f}, burn={burn}, thin={thin}, samples={want_n}) returned a row/log-probability pair that is not "
                              f"a pair of the chain taken from the top fraction of chain[{burn}::{t_eff}]", ictx)
            if rows_ok:
                if want_n is None:
                    rec.check(abs(len(used) - strict_top.size) <= 1 and len(set(used)) == len(used) and set(must) <= set(used), "interval-incomplete",
                              lambda: f"{kind}: get_interval(interval={frac:.4f}, burn={burn}, thin={thin}) returned {len(used)} rows; the top fraction of the {n_sel} retained samples has {strict_top.size}", ictx)
                else:
                    rec.check(len(used) <= want_n and len(set(used)) == len(used), "interval-too-many",
                              lambda: f"{kind}: get_interval(samples={want_n}) returned {len(used)} rows", ictx)
                    rec.check(len(used) >= min(1, strict_top.size), "interval-empty",
                              lambda: f"{kind}: get_interval(samples={want_n}) returned no rows although the top fraction holds {strict_top.size}", ictx)


def count_sweep(rec, ch, kind, rng, ctx, n_pairs=12):
    """get_interval(samples=n) for many (rows available, rows requested) pairs: at most n rows come back, all of them pairs of the chain."""
    full_s, full_p = mc.full_readout(ch)
    L = full_p.size
    if L < 3:
        return
    pairs = {(bytes(full_p[h].tobytes()), bytes(full_s[h].tobytes())) for h in range(L)}
    for _ in range(n_pairs):
        burn = int(rng.integers(0, max(L // 3, 1)))
        want = int(rng.integers(1, L - burn + 1))
        frac = float(rng.choice([0.95, 0.9, 0.5, rng.uniform(0.3, 0.999)]))
        out = guarded(ch.get_interval, interval=frac, burn=burn, samples=want)
        rec.count("post:get_interval_count_sweep")
        cctx = {**ctx, "length": L, "burn": burn, "interval": frac, "samples": want}
        if isinstance(out, Raised):
            rec.violation("raised", f"{kind}: get_interval(interval={frac:.4f}, burn={burn}, samples={want}) on a chain of {L} rows raised {out!r}", cctx)
            continue
        rs, rp = np.asarray(out[0], float), np.asarray(out[1], float)
        rec.check(rs.shape[0] == rp.size and rp.size <= want, "interval-too-many",
                  lambda: f"{kind}: get_interval(samples={want}) on {L - burn} burned rows returned {rp.size} rows", cctx)
        rec.check(all((bytes(np.float64(q).tobytes()), bytes(np.ascontiguousarray(r).tobytes())) in pairs for r, q in zip(rs, rp)), "interval-rows",
                  lambda: f"{kind}: get_interval(samples={want}) returned a row / log-probability pair that is not a pair of the chain", cctx)


def long_runs(job, rec, rng):
    """Production-sized chains: thousands to tens of thousands of rows, read out with a short burn-in and little thinning."""
    for c, kind in enumerate(["ensemble", mc.KINDS[job["j"] % len(mc.KINDS)]]):
        d = int(rng.choice([1, 2, 3]))
        target = mc.GaussTarget(np.zeros(d), np.eye(d))
        if kind == "ensemble":
            nw = int(rng.choice([20, 50, 64]))
            ch = guarded(mc.make_sampler, kind, target, np.zeros(d), rng, n_walkers=nw, seed=int(rng.integers(2**31)))
            steps = int(rng.choice([120, 21000 // nw + 5, 32000 // nw]))
        else:
            ch = guarded(mc.make_sampler, kind, target, rng.normal(size=d) * 0.3, rng, grad=target.grad, seed=int(rng.integers(2**31)))
            steps = int(rng.choice([700, 1500, 2500])) if kind != "hmc" else int(rng.choice([300, 700]))
        ctx = {"chain": f"long-{c}", "kind": kind, "d": d, "steps": steps}
        rec.context = ctx
        if isinstance(ch, Raised):
            rec.violation("raised", f"{kind} construction raised {ch!r}", ctx)
            continue
        r = guarded(ch.advance, steps)
        if isinstance(r, Raised):
            rec.violation("raised", f"{kind}: advancing raised {r!r}", ctx)
            continue
        rec.count("cases:long_chain")
        if len(ch.get_probabilities(burn=0, thin=1)) > 20000:
            rec.count("cases:long_chain_over_20000_rows")
        check_readouts(rec, ch, kind, rng, ctx, 3, long_run=True)


def run_job(job, rec):
    rng = mk_rng(job["seed"], "C14", job["j"])
    long_runs(job, rec, mk_rng(job["seed"], "C14-long", job["j"]))
    for c in range(job["n_chains"]):
        kind = mc.KINDS[(c + job["j"]) % len(mc.KINDS)]
        d = int(rng.choice([1, 2, 3, 4]))
        target = mc.GaussTarget(np.zeros(d), np.eye(d))
        if rng.random() < 0.2:
            target = mc.TerraceTarget(np.zeros(d), radius=float(rng.uniform(0.3, 1.0)), step=0.5)   # few distinct log-probabilities: ties at the cut
            rec.count("cases:tied_log_probabilities")
        target = mc.Interruptible(target)     # (lets the harness interrupt a run from inside the posterior, see below)
        T = float(rng.choice([1.0, 1.0, 2.5]))
        bounds = None
        if kind in ("pca", "hmc", "ensemble") and rng.random() < 0.4:
            bounds = (np.full(d, -3.0), np.full(d, 3.0))
        kw = {}
        if kind in ("gibbs", "metropolis", "pca", "hmc"):
            kw["temperature"] = T
        ch = guarded(mc.make_sampler, kind, target, rng.normal(size=d) * 0.3, rng, grad=target.grad if rng.random() < 0.7 else None,
                     bounds=bounds, seed=int(rng.integers(2**31)), **kw)
        ctx = {"chain": c, "kind": kind, "d": d, "bounded": bounds is not None}
        rec.context = ctx
        if isinstance(ch, Raised):
            rec.violation("raised", f"{kind} construction raised {ch!r}", ctx)
            continue
        steps = int(rng.choice([0, 1, 2, 3, 10, 57, 150, 399]))
        if kind == "ensemble":
            steps = max(1, steps // 10)
            r = guarded(ch.advance, steps)
        else:
            r = guarded(lambda: [ch.take_step() for _ in range(steps)])
        if isinstance(r, Raised):
            rec.violation("raised", f"{kind}: advancing raised {r!r}", ctx)
            continue
        if c < 2:
            rec.sample({**ctx, "steps": steps, "chain_length": int(ch.chain_length)})
        check_readouts(rec, ch, kind, rng, ctx, 6)
        count_sweep(rec, ch, kind, mk_rng(job["seed"], "C14-counts", job["j"], c), ctx)

        # an interruption raised from inside the posterior (Ctrl-C) in the middle of a run; the sampler is kept and read out: rows stay aligned
        if rng.random() < 0.3:
            target.arm(int(rng.integers(1, 40)))
            try:
                ch.advance(5 if kind == "ensemble" else 30)
            except mc.InjectedInterrupt:
                rec.count("cases:read_out_after_interruption")
            except Exception as exc:  # noqa: BLE001
                rec.violation("raised", f"{kind}: advance raised {exc!r}", ctx)
                continue
            finally:
                target.disarm()
            if not (kind == "ensemble" and getattr(ch, "sample", None) is None):
                r_ = guarded(check_readouts, rec, ch, kind, rng, {**ctx, "after": "interrupted advance"}, 2)
                if isinstance(r_, Raised):
                    rec.violation("raised", f"{kind}: read-outs after an interrupted advance raised {r_!r}", ctx)
                    continue

        # histories: further steps, then a replacement of the last point, then read out again
        if kind != "ensemble":
            r = guarded(lambda: [ch.take_step() for _ in range(int(rng.integers(1, 6)))])
            if isinstance(r, Raised):
                rec.violation("raised", f"{kind}: take_step raised {r!r}", ctx)
                continue
            check_readouts(rec, ch, kind, rng, {**ctx, "after": "more steps"}, 2)
            new_last = np.asarray(ch.get_last(), float) + 0.123
            r = guarded(ch.replace_last, new_last.copy())
            if isinstance(r, Raised):
                rec.violation("raised", f"{kind}: replace_last raised {r!r}", ctx)
                continue
            ch.probs[-1] = target(new_last) * ch.inv_temp
            rec.count("cases:after_replace_last")
            s_all = guarded(ch.get_sample, burn=0, thin=1)
            ok = (not isinstance(s_all, Raised)) and np.array_equal(np.asarray(s_all)[-1], new_last)
            rec.check(ok, "readout-stale-after-replace_last",
                      lambda: f"{kind}: after replace_last the last row of get_sample is {np.asarray(s_all)[-1] if not isinstance(s_all, Raised) else s_all}, expected {new_last}", ctx)
            check_readouts(rec, ch, kind, rng, {**ctx, "after": "replace_last"}, 2)
        else:
            r = guarded(ch.advance, int(rng.integers(1, 4)))
            if isinstance(r, Raised):
                rec.violation("raised", f"{kind}: advance raised {r!r}", ctx)
                continue
            check_readouts(rec, ch, kind, rng, {**ctx, "after": "more iterations"}, 2)
