"""Seeded generators for GP workloads: kernel specs, repository kernel objects
built from a spec, hyper-parameter vectors, data sets."""
import numpy as np

from vmon.ref import gp as R

MEANS = ["Constant", "Linear", "Quadratic"]


def random_spec(rng, depth=0, allow_noise=True, allow_cp=True, max_cp=4, cp_noise=False):
    """cp_noise: the kernels of a change-point may be sums that contain a noise term (noise that differs between regions)."""
    r = rng.random()
    if depth >= 2 or r < 0.35:
        return (str(rng.choice(["SE", "RQ"])),)
    if r < 0.65:
        n = int(rng.integers(2, 5 if depth == 0 else 3))
        parts = [random_spec(rng, depth + 1, allow_noise=False, allow_cp=allow_cp, max_cp=max_cp, cp_noise=cp_noise) for _ in range(n)]
        # flatten nested sums: the library flattens on __add__
        flat = []
        for p in parts:
            flat.extend(p[1] if p[0] == "SUM" else [p])
        if allow_noise and rng.random() < 0.6:
            flat.insert(int(rng.integers(0, len(flat) + 1)), (str(rng.choice(["WN", "HN"])),))
        return ("SUM", flat)
    if allow_cp:
        n = int(rng.integers(2, max_cp + 1))
        kernels = []
        for _ in range(n):
            if cp_noise and rng.random() < 0.3:
                sub = ("SUM", [(str(rng.choice(["SE", "RQ"])),), (str(rng.choice(["WN", "WN", "HN"])),)][:: int(rng.choice([1, -1]))])
            elif depth == 0 and rng.random() < 0.25:
                sub = random_spec(rng, depth + 1, allow_noise=False, allow_cp=False)
            else:
                sub = (str(rng.choice(["SE", "RQ"])),)
            kernels.append(sub)
        return ("CP", None, kernels)  # axis filled by fix_axes
    return (str(rng.choice(["SE", "RQ"])),)


def fix_axes(spec, rng, d):
    if spec[0] == "SUM":
        return ("SUM", [fix_axes(s, rng, d) for s in spec[1]])
    if spec[0] == "CP":
        return ("CP", int(rng.integers(0, d)), [fix_axes(s, rng, d) for s in spec[2]])
    return spec


def describe(spec):
    if spec[0] == "SUM":
        return "(" + "+".join(describe(s) for s in spec[1]) + ")"
    if spec[0] == "CP":
        return f"CP[axis={spec[1]}](" + ",".join(describe(s) for s in spec[2]) + ")"
    return spec[0]


def count_cp_kernels(spec):
    if spec[0] == "CP":
        return max([len(spec[2])] + [count_cp_kernels(s) for s in spec[2]])
    if spec[0] == "SUM":
        return max(count_cp_kernels(s) for s in spec[1])
    return 0


def build_repo_kernel(spec, via_add=False, share=False, _pool=None):
    """Instantiate the library's covariance object for a spec.
    via_add: False -> CompositeCovariance([...]);  True / "left" -> ((a + b) + c) + d;  "right" -> a + (b + (c + d));
             "balanced" -> (a + b) + (c + d).   (all give the components in the order written)
    share:   leaves of the same class are one and the same object (kernels hold no hyper-parameter values, so a user may well
             write  se = SquaredExponential(); k = se + se + WhiteNoise())."""
    from inference.gp import covariance as C

    pool = {} if _pool is None else _pool
    k = spec[0]
    leaf = {"SE": C.SquaredExponential, "RQ": C.RationalQuadratic, "WN": C.WhiteNoise, "HN": C.HeteroscedasticNoise}
    if k in leaf:
        if share:
            if k not in pool:
                pool[k] = leaf[k]()
            return pool[k]
        return leaf[k]()
    if k == "SUM":
        parts = [build_repo_kernel(s, via_add, share, pool) for s in spec[1]]
        if not via_add:
            return C.CompositeCovariance(parts)

        def fold(ps):
            if len(ps) == 1:
                return ps[0]
            if via_add == "right":
                return ps[0] + fold(ps[1:])
            if via_add == "balanced":
                h = len(ps) // 2
                return fold(ps[:h]) + fold(ps[h:])
            out = ps[0]
            for q in ps[1:]:
                out = out + q
            return out

        return fold(parts)
    if k == "CP":
        return C.ChangePoint(kernels=[build_repo_kernel(s, via_add, share, pool) for s in spec[2]], axis=spec[1])
    raise ValueError(spec)


def random_theta(spec, rng, x, y_scale=1.0):
    """Hyper-parameters of moderate magnitude relative to the data."""
    n, d = x.shape
    span = np.ptp(x, axis=0)
    span = np.where(span > 0, span, 1.0)
    k = spec[0]
    if k == "SE":
        return np.concatenate([[np.log(y_scale) + rng.uniform(-1.5, 1.5)], np.log(span) + rng.uniform(-2.0, 0.7, size=d)])
    if k == "RQ":
        return np.concatenate([[np.log(y_scale) + rng.uniform(-1.5, 1.5), rng.uniform(-1.5, 3.0)],
                               np.log(span) + rng.uniform(-2.0, 0.7, size=d)])
    if k == "WN":
        return np.array([np.log(y_scale) + rng.uniform(-5, 0.0)])
    if k == "HN":
        return np.log(y_scale) + rng.uniform(-5, 0.0, size=n)
    if k == "SUM":
        return np.concatenate([random_theta(s, rng, x, y_scale) for s in spec[1]])
    if k == "CP":
        ax = spec[1]
        lo, hi = x[:, ax].min(), x[:, ax].max()
        parts = [random_theta(s, rng, x, y_scale) for s in spec[2]]
        m = len(spec[2]) - 1
        locs = np.sort(rng.uniform(lo, hi, size=m)) if rng.random() < 0.7 else rng.uniform(lo, hi, size=m)
        cps = []
        for c in locs:
            cps.extend([c, (hi - lo) * 10.0 ** rng.uniform(-1.5, -0.2)])
        return np.concatenate(parts + [np.array(cps)])
    raise ValueError(spec)


def random_points(rng, n, d, far=False):
    """far=True: the cloud sits 1e4..1e8 of its own extent away from the origin (time-stamps, frequencies, Julian dates)."""
    kind = rng.choice(["uniform", "normal", "grid_jitter", "clustered"])
    scale = 10.0 ** rng.uniform(-2, 2, size=d)
    shift = rng.normal(size=d) * scale * rng.choice([0, 1, 10])
    if far:
        shift = rng.choice([-1.0, 1.0], size=d) * scale * 10.0 ** rng.uniform(4, 8, size=d)
    if kind == "uniform":
        x = rng.uniform(-1, 1, size=(n, d))
    elif kind == "normal":
        x = rng.normal(size=(n, d))
    elif kind == "grid_jitter":
        x = np.stack([np.linspace(-1, 1, n) + rng.normal(size=n) * 0.02 for _ in range(d)], axis=1)
        for j in range(1, d):
            x[:, j] = rng.permutation(x[:, j])
    else:
        c = rng.normal(size=(3, d))
        x = c[rng.integers(0, 3, size=n)] + rng.normal(size=(n, d)) * 0.15
    return x * scale + shift


def random_mean_theta(name, rng, x, y_scale):
    d = x.shape[1]
    span = np.ptp(x, axis=0)
    span = np.where(span > 0, span, 1.0)
    t = [rng.normal() * y_scale]
    if name == "UserDecay":
        return np.array([t[0], rng.uniform(0.2, 3.0)])
    if name == "UserBump":
        return np.array([t[0], rng.uniform(0.3, 3.0)])
    if name in ("Linear", "Quadratic"):
        t.extend(rng.normal(size=d) * y_scale / span)
    if name == "Quadratic":
        t.extend(rng.normal(size=d) * y_scale / span**2)
    return np.array(t)


def build_repo_mean(name):
    from inference.gp import mean as M

    if name == "UserDecay":
        return user_decay_class()()
    if name == "UserBump":
        return user_bump_class()()
    return {"Constant": M.ConstantMean, "Linear": M.LinearMean, "Quadratic": M.QuadraticMean}[name]()


def user_decay_class():
    """A mean function written against the library's MeanFunction interface, as a user would (documented extension point):
    m(x) = c * exp(-k * s(x)) with s the first coordinate rescaled to [0, 1] over the training inputs; non-linear in k."""
    from inference.gp import mean as M

    global UserDecayMean
    if "UserDecayMean" not in globals():
        class UserDecayMean(M.MeanFunction):
            def __init__(self, hyperpar_bounds=None):
                self.bounds = hyperpar_bounds
                self.n_params = 2
                self.hyperpar_labels = ["decay amplitude", "decay rate"]

            def pass_spatial_data(self, x):
                x0 = np.asarray(x, float)[:, 0]
                self.lo, self.rng_ = x0.min(), (np.ptp(x0) or 1.0)
                self.s = (x0 - self.lo) / self.rng_
                self.n_data = x0.size

            def estimate_hyperpar_bounds(self, y):
                w = y.max() - y.min()
                self.bounds = [(y.min() - w, y.max() + w), (0.0, 5.0)]

            def __call__(self, q, theta):
                sq = (np.atleast_2d(np.asarray(q, float))[:, 0] - self.lo) / self.rng_
                out = theta[0] * np.exp(-theta[1] * sq)
                return out[0] if out.size == 1 else out       # (a number for one point, as the library's own means return)

            def build_mean(self, theta):
                return theta[0] * np.exp(-theta[1] * self.s)

            def mean_and_gradients(self, theta):
                e = np.exp(-theta[1] * self.s)
                return theta[0] * e, [e, -theta[0] * self.s * e]

        UserDecayMean.__module__ = __name__
    return UserDecayMean


def user_bump_class():
    """A second user-written mean: m(x) = a * exp(-|u|^2 / (2 w^2)), u = (x - centroid) / extent of the training inputs.
    Its __call__ is written for what the interface hands it - one point at a time (shape (d,) or (1, d))."""
    from inference.gp import mean as M

    global UserBumpMean
    if "UserBumpMean" not in globals():
        class UserBumpMean(M.MeanFunction):
            def __init__(self, hyperpar_bounds=None):
                self.bounds = hyperpar_bounds
                self.n_params = 2
                self.hyperpar_labels = ["bump amplitude", "bump width"]

            def pass_spatial_data(self, x):
                x = np.asarray(x, float)
                self.c = x.mean(axis=0)
                ext = np.ptp(x, axis=0)
                self.ext = np.where(ext > 0, ext, 1.0)
                self.r2 = (((x - self.c) / self.ext) ** 2).sum(axis=1)
                self.n_data = x.shape[0]

            def estimate_hyperpar_bounds(self, y):
                w = y.max() - y.min()
                self.bounds = [(y.min() - w, y.max() + w), (0.1, 5.0)]

            def __call__(self, q, theta):
                u = (np.squeeze(np.asarray(q, float)) - self.c) / self.ext      # one point
                return theta[0] * np.exp(-0.5 * (u**2).sum() / theta[1] ** 2)

            def build_mean(self, theta):
                return theta[0] * np.exp(-0.5 * self.r2 / theta[1] ** 2)

            def mean_and_gradients(self, theta):
                e = np.exp(-0.5 * self.r2 / theta[1] ** 2)
                return theta[0] * e, [e, theta[0] * e * self.r2 / theta[1] ** 3]

        UserBumpMean.__module__ = __name__
    return UserBumpMean
