"""Per-job recorder: what a monitor observed, in a JSON-able form."""
import hashlib
import json
from collections import Counter

import numpy as np


def jsonable(o, depth=0):
    if depth > 6:
        return repr(o)[:200]
    if isinstance(o, (str, int, bool)) or o is None:
        return o
    if isinstance(o, float):
        return o if np.isfinite(o) else repr(o)
    if isinstance(o, (np.integer,)):
        return int(o)
    if isinstance(o, (np.floating,)):
        return jsonable(float(o))
    if isinstance(o, (np.bool_,)):
        return bool(o)
    if isinstance(o, np.ndarray):
        if o.size > 64:
            return {
                "ndarray": list(o.shape),
                "dtype": str(o.dtype),
                "head": jsonable(o.ravel()[:8].tolist(), depth + 1),
                "sha1": hashlib.sha1(np.ascontiguousarray(o).tobytes()).hexdigest()[:12],
            }
        return jsonable(o.tolist(), depth + 1)
    if isinstance(o, dict):
        return {str(k): jsonable(v, depth + 1) for k, v in o.items()}
    if isinstance(o, (list, tuple, set)):
        return [jsonable(v, depth + 1) for v in o]
    return repr(o)[:200]


def digest(*parts) -> str:
    h = hashlib.sha1()
    for p in parts:
        if isinstance(p, np.ndarray):
            h.update(str(p.shape).encode())
            h.update(str(p.dtype).encode())
            h.update(np.ascontiguousarray(p).tobytes())
        else:
            h.update(repr(p).encode())
        h.update(b"|")
    return h.hexdigest()[:16]


class Rec:
    MAX_VIOL = 12
    MAX_SAMPLES = 3

    def __init__(self, job):
        self.job = job
        self.evaluations = 0
        self.nontrivial = set()
        self.violations = []
        self.n_violations = 0
        self.counters = Counter()
        self.samples = []
        self.inconclusive = []
        self.notes = {}

    # -- coverage -------------------------------------------------------
    def case(self, case_digest: str, nontrivial: bool = True):
        """One executed case. `case_digest` identifies its input; it counts as
        distinct+non-trivial only when `nontrivial` holds by the property's rule."""
        self.evaluations += 1
        if nontrivial:
            self.nontrivial.add(case_digest)

    def count(self, name: str, n: int = 1):
        self.counters[name] += int(n)

    def sample(self, obj):
        if len(self.samples) < self.MAX_SAMPLES:
            self.samples.append(jsonable(obj))

    def note(self, name, value):
        self.notes[name] = jsonable(value)

    # -- verdicts -------------------------------------------------------
    def violation(self, key: str, msg: str, case=None):
        """`key` names the mechanism (used to match KNOWN_FINDINGS.txt)."""
        self.n_violations += 1
        self.counters["violations:" + key] += 1
        if len(self.violations) < self.MAX_VIOL:
            self.violations.append({"key": key, "msg": msg, "case": jsonable(case)})

    def check(self, ok: bool, key: str, msg, case=None):
        self.counters["oracle_evaluations"] += 1
        if not ok:
            self.violation(key, msg() if callable(msg) else msg, case)
        return ok

    def inconclusive_because(self, reason: str):
        self.inconclusive.append(reason)

    def to_dict(self):
        return {
            "job": jsonable(self.job),
            "evaluations": self.evaluations,
            "nontrivial": sorted(self.nontrivial),
            "violations": self.violations,
            "n_violations": self.n_violations,
            "counters": dict(self.counters),
            "samples": self.samples,
            "inconclusive": self.inconclusive,
            "notes": self.notes,
        }


def dump(path, obj):
    with open(path, "w") as f:
        json.dump(obj, f, indent=1, sort_keys=True, default=str)


class OnlyKeys:
    """View of a Rec through which only the listed mechanisms can be reported: used when one property's check drives the
    monitors of another property's machinery and must not raise that other property's alarms."""

    def __init__(self, rec, keys, prefix=""):
        self._rec, self._keys, self._prefix = rec, set(keys), prefix

    def check(self, ok, key, msg, case=None):
        if key in self._keys:
            return self._rec.check(ok, key, msg, case)
        return bool(ok)

    def violation(self, key, msg, case=None):
        if key in self._keys:
            self._rec.violation(key, msg, case)

    def count(self, name, n=1):
        self._rec.count(self._prefix + name, n)

    def inconclusive_because(self, reason):
        self._rec.inconclusive_because(reason)

    def __getattr__(self, name):
        return getattr(self._rec, name)
