"""C07 - Hamiltonian trajectories are reversible, volume-preserving and energy-accurate.

The trajectory map of real HamiltonianChain objects (run_leapfrog) is driven directly:
 (a) reversibility   Phi, negate momentum, Phi  returns to the start;
 (b) volume          |det| of the central-difference Jacobian of (t, r) -> Phi(t, r) is 1;
 (c) energy          |H(Phi(t, r)) - H(t, r)| at fixed trajectory time scales as eps^2;
 (d) kinetic energy  = 1/2 r^T M^-1 r for the M^-1 the user passed, and momenta ~ N(0, M);
 (e) fallback gradient (finite_diff) approximates the true gradient, zero coordinates included.
A recorder on Bounds.reflect_momenta counts reflections and the closest approach to a wall
image, so that wall-grazing trajectories (where rounding decides the fold) are not judged.
"""
import numpy as np

from vmon.rec import digest
from vmon.util import mk_rng, guarded, Raised
from vmon import mc, stats as st

ID = "C07"
RULE = (
    "seeded (potential, start, momentum, step size, step count, temperature, mass, box): quadratic+quartic, correlated Gaussian "
    "and banana potentials in 1-6 dimensions at scales 1e-2..1e2; scalar / vector / matrix mass; T = 1 or 3; boxes around the "
    "start; with and without user gradient; non-trivial = the trajectory reflects at least once, or the mass is not scalar, or "
    "T != 1; distinct = distinct inputs"
)
ASSUMPTIONS = [
    "trajectories passing within 1e-7 widths of a wall image are not judged for reversibility (rounding decides the fold there)",
    "Jacobian determinants whose forward and backward differences disagree (a wall kink inside the stencil) are skipped and counted",
]
TIMEOUT = {"quick": 400, "thorough": 2400}
REQUIRED = {"reversibility_checks": 300, "reversibility_checks:reflecting": 60, "volume_checks": 100, "volume_checks:reflecting": 10,
            "energy_slopes:free": 60, "energy_order_verdicts": 20, "energy_slopes:reflecting": 30, "kinetic_checks": 300, "stat_tests": 40,
            "finite_diff_checks": 100, "finite_diff_checks:zero_coordinate": 30, "finite_diff_checks:far_narrow_box": 100}


def jobs(tier, seed):
    n_jobs = 16 if tier == "quick" else 32
    return [{"name": f"traj-{j}", "seed": seed, "j": j, "n_cfg": 24 if tier == "quick" else 150} for j in range(n_jobs)]


class Potential:
    def __init__(self, rng, d):
        self.d = d
        self.kind = str(rng.choice(["quartic", "gauss", "banana"])) if d >= 2 else str(rng.choice(["quartic", "gauss"]))
        # parameter scale: mostly moderate, sometimes extreme (micro-units, or 1e6): everything below is expressed in units of s
        self.s = 10.0 ** (rng.uniform(-2, 2) if rng.random() < 0.65 else rng.uniform(-8, 6))
        A = rng.normal(size=(d, d))
        self.P = A @ A.T / d + 0.5 * np.eye(d)
        self.lam = 0.05 if self.kind == "quartic" else 0.0
        self.b = float(rng.uniform(0.1, 0.4))

    def __call__(self, t):
        x = np.asarray(t, float) / self.s
        if self.kind == "banana":
            u = x[1] + self.b * (x[0] ** 2 - 4.0)
            return float(-0.5 * (x[0] ** 2 / 4.0 + u * u) - 0.5 * np.sum(x[2:] ** 2))
        return float(-0.5 * x @ self.P @ x - self.lam * np.sum(x**4))

    def grad(self, t):
        x = np.asarray(t, float) / self.s
        if self.kind == "banana":
            u = x[1] + self.b * (x[0] ** 2 - 4.0)
            g = np.zeros(self.d)
            g[0] = -(x[0] / 4.0 + u * 2 * self.b * x[0])
            g[1] = -u
            g[2:] = -x[2:]
            return g / self.s
        return (-(self.P @ x) - 4 * self.lam * x**3) / self.s


class ReflectionRecorder:
    def __init__(self):
        self.reset()

    def reset(self):
        self.reflections = 0
        self.min_wall = np.inf

    def post(self, out, bounds, theta):
        refl = np.asarray(out[1], float)
        self.reflections += int((refl < 0).sum())
        th = np.asarray(theta, float)
        w = bounds.width
        rem = np.mod(th - bounds.lower, w)
        self.min_wall = min(self.min_wall, float(np.min(np.minimum(rem, w - rem) / w)))


def run_job(job, rec):
    from inference.mcmc import HamiltonianChain, Bounds
    from vmon.contracts import attach

    rng = mk_rng(job["seed"], "C07", job["j"])
    rr = ReflectionRecorder()
    attach(Bounds, "reflect_momenta", post=rr.post)
    all_refl_slopes = []

    for c in range(job["n_cfg"]):
        d = int(rng.choice([1, 2, 3, 4, 6]))
        pot = Potential(rng, d)
        s = pot.s
        T = float(rng.choice([1.0, 3.0]))
        mass_kind = str(rng.choice(["default", "scalar", "vector", "matrix"]))
        if mass_kind == "default":
            im, M = None, np.eye(d)
        elif mass_kind == "scalar":
            im = float(s * s * rng.uniform(0.5, 2))
            M = np.eye(d) / im
        elif mass_kind == "vector":
            im = s * s * rng.uniform(0.5, 2, size=d)
            M = np.diag(1.0 / im)
        else:
            if rng.random() < 0.5 or d == 1:
                B = rng.normal(size=(d, d))
                im = s * s * (B @ B.T / d + np.eye(d))
            else:  # strongly non-diagonal
                sg = rng.choice([-1.0, 1.0], size=d)
                im = s * s * (0.2 * np.eye(d) + 0.8 * np.ones((d, d))) * sg[:, None] * sg[None, :] * rng.uniform(0.5, 2)
            im = 0.5 * (im + im.T)
            M = np.linalg.inv(im)
        invM = np.linalg.inv(M)
        bounded = bool(rng.random() < 0.55)
        start = rng.normal(size=d) * 0.5 * s
        lo = start - s * rng.uniform(0.4, 2.5, size=d)
        hi = start + s * rng.uniform(0.4, 2.5, size=d)
        user_grad = bool(rng.random() < 0.8)
        cfg = {"config": c, "d": d, "potential": pot.kind, "scale": s, "T": T, "mass": mass_kind, "bounded": bounded, "user_gradient": user_grad}
        rec.context = cfg
        kw = dict(posterior=pot, start=start.copy(), grad=pot.grad if user_grad else None, temperature=T,
                  bounds=(lo.copy(), hi.copy()) if bounded else None, display_progress=False)
        if im is not None:
            kw["inverse_mass"] = im
        ch = guarded(HamiltonianChain, **kw)
        if isinstance(ch, Raised):
            rec.violation("raised", f"HamiltonianChain construction raised {ch!r}", cfg)
            continue
        # fastest angular frequency of the dynamics: force = grad / T, velocity = M^-1 r; the Hessian of the potentials
        # used here is bounded by (lambda_max(P) + 6) / s^2 over the region visited
        w_max = np.sqrt(np.linalg.eigvalsh(invM).max() * (np.linalg.eigvalsh(pot.P).max() + 6.0) / (s * s) / T)
        tau_unit = 1.0 / w_max
        mom_scale = np.sqrt(np.diag(M))
        # ---- a mass estimated from the chain's own samples (estimate_mass) is one more accepted mass specification: the chain is
        #      advanced a little, the mass re-estimated, and every oracle below then uses the variance / covariance of those samples
        if c % 5 == 2:
            ch.ES.epsilon = 0.3 * tau_unit   # a stable step for the stepping below (the default 0.1 is meaningless at parameter scales of 1e-8)
            r_adv = guarded(lambda: [ch.take_step() for _ in range(int(rng.integers(25, 60)))])
            if isinstance(r_adv, Raised):
                rec.violation("raised", f"take_step raised {r_adv!r}", cfg)
                continue
            b_, t_ = int(rng.choice([0, 1, 5])), int(rng.choice([1, 2]))
            dense = bool(d >= 2 and rng.random() < 0.6)
            r_est = guarded(ch.estimate_mass, burn=b_, thin=t_, diagonal=not dense)
            if isinstance(r_est, Raised):
                rec.violation("raised", f"estimate_mass(burn={b_}, thin={t_}, diagonal={not dense}) raised {r_est!r}", cfg)
                continue
            smp = np.array([np.asarray(v, float) for v in ch.theta[b_::t_]])
            V = np.cov(smp.T).reshape(d, d) if dense else np.diag(np.var(smp, axis=0))
            if np.linalg.cond(V) > 1e8:
                continue
            invM, M = V, np.linalg.inv(V)
            mass_kind = "matrix" if dense else "vector"
            cfg = {**cfg, "mass": mass_kind + " (estimate_mass)", "estimate_mass": {"burn": b_, "thin": t_, "diagonal": not dense}}
            rec.context = cfg
            rec.count("cases:estimated_mass")
            w_max = np.sqrt(np.linalg.eigvalsh(invM).max() * (np.linalg.eigvalsh(pot.P).max() + 6.0) / (s * s) / T)
            tau_unit = 1.0 / w_max
            mom_scale = np.sqrt(np.diag(M))
        if c < 2:
            rec.sample(cfg)

        def draw_state():
            t0 = lo + (hi - lo) * rng.uniform(0.1, 0.9, size=d) if bounded else start + rng.normal(size=d) * 0.7 * s
            r0 = np.asarray(ch.mass.sample_momentum(rng), float) * rng.uniform(0.5, 2.0)
            return t0, r0

        # ------------------------------------------------ (d) kinetic energy and momentum law
        for _ in range(8):
            r = rng.normal(size=d) * mom_scale * 10.0 ** rng.uniform(-1, 1)
            want = 0.5 * r @ invM @ r
            ke = guarded(ch.kinetic_energy, r.copy())
            rec.count("kinetic_checks")
            rec.check((not isinstance(ke, Raised)) and abs(float(ke) - want) <= 1e-12 * abs(want) + 1e-300, "kinetic-energy",
                      lambda: f"{mass_kind} mass: kinetic_energy = {ke!r} but 1/2 r^T M^-1 r = {want!r} for the inverse mass that was passed", cfg)
            t = rng.normal(size=d) * s
            hm = guarded(ch.hamiltonian, t, r.copy())
            wanth = want - pot(t) / T
            rec.check((not isinstance(hm, Raised)) and abs(float(hm) - wanth) <= 1e-12 * (abs(want) + abs(pot(t) / T)) + 1e-300, "hamiltonian",
                      lambda: f"hamiltonian = {hm!r}, expected kinetic - log-density / T = {wanth!r}", cfg)
        if c % 3 == 0:
            Cm = np.linalg.cholesky(M)

            def pv(n, stage):
                g = np.random.default_rng(rng.integers(2**63))
                R = np.array([ch.mass.sample_momentum(g) for _ in range(n)], float).reshape(n, d)
                U = np.linalg.solve(Cm, R.T).T  # ~ N(0, I) iff momenta ~ N(0, M)
                from scipy import stats as sst

                p1 = 2 * min(sst.chi2.sf((U**2).sum(), n * d), sst.chi2.cdf((U**2).sum(), n * d))
                ps = [p1]
                for i in range(d):
                    ps.append(st.z_to_p(((U[:, i] ** 2).sum() - n) / np.sqrt(2 * n)))
                    for j in range(i + 1, d):
                        ps.append(st.z_to_p((U[:, i] * U[:, j]).sum() / np.sqrt(n)))
                return float(min(1.0, min(ps) * len(ps)))

            st.two_stage(rec, "momentum-law", pv, 4000,
                         lambda: f"{mass_kind} mass (d={d}): momenta are not distributed as N(0, M) for the mass implied by the inverse mass passed", cfg)

        # ------------------------------------------------ (a) reversibility and (b) volume
        for rep in range(6):
            t0, r0 = draw_state()
            n = int(rng.choice([1, 2, 5, 20, 55]))
            eps = tau_unit * 10.0 ** rng.uniform(-2.0, -0.5)
            ch.ES.epsilon = eps
            rr.reset()
            f = guarded(ch.run_leapfrog, t0.copy(), r0.copy(), n)
            if isinstance(f, Raised):
                rec.violation("raised", f"run_leapfrog raised {f!r}", cfg)
                break
            t1, r1 = np.asarray(f[0], float), np.asarray(f[1], float)
            n_refl, wall1 = rr.reflections, rr.min_wall
            b = guarded(ch.run_leapfrog, t1.copy(), -r1.copy(), n)
            if isinstance(b, Raised):
                rec.violation("raised", f"run_leapfrog raised {b!r}", cfg)
                break
            t2, r2 = np.asarray(b[0], float), np.asarray(b[1], float)
            wall = min(wall1, rr.min_wall)
            tctx = {**cfg, "n_steps": n, "epsilon": eps, "reflections": n_refl, "t0": t0, "r0": r0}
            rec.case(digest(cfg["potential"], t0, r0, n, eps, mass_kind, T), nontrivial=n_refl > 0 or mass_kind not in ("default", "scalar") or T != 1)
            if bounded:
                inb = bool(np.all(t1 >= lo - 1e-9 * s) and np.all(t1 <= hi + 1e-9 * s))
                rec.check(inb, "trajectory-leaves-box", lambda: f"trajectory end point {t1} outside the box [{lo}, {hi}]", tctx)
            if wall < 1e-7:
                rec.count("skipped_wall_grazing")
            else:
                rec.count("reversibility_checks")
                if n_refl:
                    rec.count("reversibility_checks:reflecting")
                err = max(np.abs(t2 - t0).max() / s, np.abs(r2 + r0).max() / np.abs(mom_scale).max())
                key = "not-reversible"
                if mass_kind == "matrix" and bounded and n_refl > 0:
                    key = "not-reversible:matrix-mass-with-reflection"
                rec.check(err <= 1e-6, key,
                          lambda: f"{mass_kind} mass, {'bounded' if bounded else 'free'}, T={T}, {n} steps, {n_refl} reflections: forward, negate momentum, "
                                  f"forward misses the start by {err:.3e} (relative)", tctx)

            # volume: Jacobian by central differences (d <= 4 keeps this cheap)
            if d <= 4 and rep < 3 and wall >= 1e-4 and n <= 20:
                z0 = np.concatenate([t0, r0])
                hz = np.concatenate([np.full(d, 1e-4 * s), 1e-4 * mom_scale])

                def phi(z):
                    o = ch.run_leapfrog(z[:d].copy(), z[d:].copy(), n)
                    return np.concatenate([np.asarray(o[0], float), np.asarray(o[1], float)])

                base = np.concatenate([t1, r1])
                J = np.zeros((2 * d, 2 * d))
                kink = False
                for k in range(2 * d):
                    e = np.zeros(2 * d)
                    e[k] = hz[k]
                    fp, fmn = phi(z0 + e), phi(z0 - e)
                    fwd, bwd = (fp - base) / hz[k], (base - fmn) / hz[k]
                    scale_col = np.maximum(np.abs(fwd), np.abs(bwd)).max() + 1e-300
                    if np.abs(fwd - bwd).max() > 1e-3 * scale_col:
                        kink = True
                        break
                    J[:, k] = (fp - fmn) / (2 * hz[k])
                if kink:
                    rec.count("volume_skipped_kink")
                else:
                    # scale rows/columns so that the determinant is dimensionless
                    D = np.concatenate([np.full(d, s), mom_scale])
                    det = np.linalg.det(J * D[None, :] / D[:, None])
                    rec.count("volume_checks")
                    if n_refl:
                        rec.count("volume_checks:reflecting")
                    rec.check(abs(abs(det) - 1) <= 1e-4, "volume-not-preserved",
                              lambda: f"{mass_kind} mass, T={T}, {n} steps, {n_refl} reflections: |det Jacobian| = {abs(det)!r}", tctx)

        # ------------------------------------------------ (c) energy error order at fixed trajectory time
        slopes_free, slopes_refl = [], []
        for rep in range(5):
            t0, r0 = draw_state()
            tau = tau_unit * rng.uniform(2.0, 5.0)
            ns = np.array([16, 32, 64, 128, 256])
            H0 = float(ch.hamiltonian(t0, r0.copy()))
            dH, refl_tot = [], 0
            for nn in ns:
                ch.ES.epsilon = tau / nn
                rr.reset()
                o = ch.run_leapfrog(t0.copy(), r0.copy(), int(nn))
                refl_tot += rr.reflections
                dH.append(abs(float(ch.hamiltonian(np.asarray(o[0]), np.asarray(o[1]).copy())) - H0))
            dH = np.array(dH)
            if np.all(dH > 1e-13 * max(abs(H0), 1.0)):
                sl = float(np.polyfit(np.log(tau / ns), np.log(dH), 1)[0])
                (slopes_refl if refl_tot else slopes_free).append(sl)
        ectx = {**cfg, "slopes_free": slopes_free, "slopes_reflecting": slopes_refl}
        rec.count("energy_slopes:free", len(slopes_free))
        if len(slopes_free) >= 3 and not user_grad:
            rec.count("energy_order_not_judged_finite_difference_gradient")  # its O(h) error sets a floor under the eps^2 term; judged in (e)
        if len(slopes_free) >= 3 and user_grad:
            # single slopes are erratic where the eps^2 coefficient happens to vanish at the chosen trajectory time:
            # the configuration is judged on the median of its trajectories
            med = float(np.median(slopes_free))
            rec.count("energy_order_verdicts")
            rec.check(1.7 <= med <= 2.6, "energy-error-not-second-order",
                      lambda: f"{mass_kind} mass, T={T}, {'user' if user_grad else 'finite-difference'} gradient, no reflection: energy error scales as eps^{med:.2f} "
                              f"(median of {len(slopes_free)} trajectories: {np.round(slopes_free, 2).tolist()})", ectx)
        rec.count("energy_slopes:reflecting", len(slopes_refl))
        all_refl_slopes.extend(slopes_refl)

        # ------------------------------------------------ (e) fallback gradient
        for rep in range(4):
            t = start + rng.normal(size=d) * 0.8 * s
            if bounded:
                t = lo + (hi - lo) * rng.uniform(0.02, 0.98, size=d)
            zero = rng.random() < 0.5 and not (bounded and (lo[0] > 0 or hi[0] < 0))
            if zero:
                t[int(rng.integers(d))] = 0.0
                if bounded:
                    t = np.clip(t, lo, hi)
            if pot.s < 0.05 and zero:
                continue  # a fixed 1e-5 step at an exactly-zero coordinate cannot resolve a potential of scale < 0.05
            g = guarded(ch.finite_diff, t.copy())
            rec.count("finite_diff_checks")
            if zero and np.any(t == 0):
                rec.count("finite_diff_checks:zero_coordinate")
            true = pot.grad(t)
            gs = np.abs(true).max() + 1.0 / s
            ok = (not isinstance(g, Raised)) and np.shape(g) == (d,) and bool(np.all(np.isfinite(g))) and bool(np.abs(np.asarray(g) - true).max() <= 2e-3 * gs)
            rec.check(ok, "finite-difference-gradient",
                      lambda: f"T={T}: finite_diff({t}) = {g!r} but the gradient of the log-density is {true}", {**cfg, "t": t})
    # ------------------------------------------------ (d') a mass specification that is not a covariance (two triangles differ): refused, or self-consistent
    for c in range(max(3, job["n_cfg"] // 6)):
        d = int(rng.choice([2, 3, 4]))
        Bm = rng.normal(size=(d, d))
        good = Bm @ Bm.T / d + 0.5 * np.eye(d)
        bad = np.tril(good) + np.triu(good, 1) * float(rng.uniform(0.2, 0.7))        # lower triangle of one estimate, upper of another
        mctx = {"asymmetric_inverse_mass": c, "d": d}
        rec.context = mctx
        pot = Potential(rng, d)
        ch = guarded(HamiltonianChain, posterior=pot, start=np.zeros(d), grad=pot.grad, inverse_mass=bad, display_progress=False)
        rec.count("asymmetric_mass_cases")
        if isinstance(ch, Raised):
            rec.count("asymmetric_mass_cases:refused")
            continue
        # accepted: then the momenta must be drawn under the kinetic energy that is used, E[r . v(r)] = d for r ~ N(0, M), v = M^-1 r

        def pv_m(n_, stage, ch=ch, d=d):
            g_ = np.random.default_rng(rng.integers(2**63))
            vals = np.array([2.0 * float(ch.kinetic_energy(np.asarray(ch.mass.sample_momentum(g_), float))) for _ in range(n_)])
            zscore = (vals.mean() - d) / (vals.std(ddof=1) / np.sqrt(n_) + 1e-300)
            return st.z_to_p(zscore)

        st.two_stage(rec, "momentum-law", pv_m, 4000,
                     lambda: f"an inverse mass whose triangles differ was accepted (d={d}), but twice the kinetic energy of freshly drawn momenta does not average to d", mctx)

    # ------------------------------------------------ (e') fallback gradient in narrow boxes far from zero, next to the walls
    class Shifted:
        def __init__(self, pot, centre):
            self.pot, self.c = pot, centre

        def __call__(self, t):
            return self.pot(np.asarray(t, float) - self.c)

        def grad(self, t):
            return self.pot.grad(np.asarray(t, float) - self.c)

    class HardWalled:
        """A log-density that does not exist outside the box the user declares as bounds (what bounds are for)."""

        def __init__(self, inner, lo, hi):
            self.inner, self.lo, self.hi = inner, lo, hi
            self.outside_calls = 0

        def __call__(self, t):
            t = np.asarray(t, float)
            if np.any(t < self.lo) or np.any(t > self.hi):
                self.outside_calls += 1
                return -np.inf
            return self.inner(t)

    for c in range(max(4, job["n_cfg"] // 3)):
        d = int(rng.choice([1, 2, 3]))
        pot = Potential(rng, d)
        s = pot.s
        far = bool(c % 2 == 0)
        centre = rng.choice([-1.0, 1.0], size=d) * s * (10.0 ** rng.uniform(3, 6.5, size=d) if far else rng.uniform(0.0, 3.0, size=d))
        sp = Shifted(pot, centre)
        lo, hi = centre - s * rng.uniform(0.5, 2, size=d), centre + s * rng.uniform(0.5, 2, size=d)
        hard = bool(rng.random() < 0.6)
        T = float(rng.choice([1.0, 3.0]))
        fctx = {"far_narrow_box": c, "d": d, "scale": s, "centre": centre, "lower": lo, "upper": hi, "T": T}
        rec.context = fctx
        fctx["hard_walled"] = hard
        post_fn = HardWalled(sp, lo, hi) if hard else sp
        ch = guarded(HamiltonianChain, posterior=post_fn, start=centre.copy(), grad=None, temperature=T, bounds=(lo.copy(), hi.copy()), display_progress=False)
        if isinstance(ch, Raised):
            rec.violation("raised", f"HamiltonianChain construction raised {ch!r}", fctx)
            continue
        w = hi - lo
        for where in ("interior", "at_lower", "at_upper", "mixed_corner", "mixed_corner", "on_the_walls"):
            t = lo + w * rng.uniform(0.1, 0.9, size=d)
            near_lo, near_hi = lo + w * 10.0 ** rng.uniform(-9, -5, size=d), hi - w * 10.0 ** rng.uniform(-9, -5, size=d)
            if where == "at_lower":
                t = near_lo
            elif where == "at_upper":
                t = near_hi
            elif where == "mixed_corner":
                # each coordinate on its own: next to its lower wall, next to its upper wall, or inside
                pick = rng.integers(0, 3, size=d)
                if d >= 2:
                    pick[:2] = rng.permutation([0, 1])
                t = np.where(pick == 0, near_lo, np.where(pick == 1, near_hi, t))
            elif where == "on_the_walls":
                pick = rng.integers(0, 3, size=d)
                t = np.where(pick == 0, lo, np.where(pick == 1, hi, t))
            if not far and np.any(np.abs(t) < 1e-3 * s) and np.any(t != 0):
                continue   # the relative step 1e-5*abs(t) of a tiny non-zero coordinate is below the rounding of the log-density
            g = guarded(ch.finite_diff, t.copy())
            true = sp.grad(t)
            rec.count("finite_diff_checks:far_narrow_box" if far else "finite_diff_checks:box_near_origin")
            rec.count("finite_diff_checks:" + where)
            rec.case(digest("fd-far", centre, lo, hi, t), nontrivial=True)
            gs = np.abs(true).max() + 1.0 / s
            # the displaced point is ~1e-3 widths away and the coordinates are ~1e6 widths from zero: rounding of t alone costs ~1e-4
            ok = (not isinstance(g, Raised)) and np.shape(g) == (d,) and bool(np.all(np.isfinite(g))) and bool(np.abs(np.asarray(g) - true).max() <= 2e-2 * gs)
            rec.check(ok, "finite-difference-gradient",
                      lambda: f"box of width ~{w.max():.3g} centred at {centre} ({where}): finite_diff = {g!r}, gradient of the log-density = {true}", fctx)

    rec.note("reflecting_slopes", all_refl_slopes)


def _pooled_slopes(results):
    sl = []
    for r in results:
        sl.extend((r.get("notes") or {}).get("reflecting_slopes", []) or [])
    return [float(v) for v in sl]


def finalize(results, rec):
    """Energy-error order of trajectories that reflect, pooled over all jobs (single slopes are erratic because the
    phase of the wall hit within a step is effectively random): decided on the median."""
    sl = _pooled_slopes(results)
    if len(sl) < 30:
        rec.inconclusive_because(f"only {len(sl)} energy-order slopes of reflecting trajectories were measured")
        return
    med = float(np.median(sl))
    q = np.percentile(sl, [25, 75])
    ctx = {"n": len(sl), "median": med, "q25": float(q[0]), "q75": float(q[1])}
    rec.count("oracle_evaluations")
    if med < 0.6:
        rec.violation("energy-error-does-not-shrink-with-reflections",
                      f"energy error of trajectories that reflect scales as eps^{med:.2f} (median of {len(sl)}): it does not even shrink linearly", ctx)
    elif med < 1.7:
        rec.violation("energy-error-first-order-with-reflections",
                      f"energy error of trajectories that reflect scales as eps^{med:.2f} (median of {len(sl)} slopes, quartiles {q[0]:.2f}..{q[1]:.2f}), not eps^2", ctx)


def summarise(results):
    sl = _pooled_slopes(results)
    out = {"reflecting_energy_slopes": {"n": len(sl)}}
    if sl:
        q = np.percentile(sl, [25, 50, 75])
        out["reflecting_energy_slopes"].update(q25=float(q[0]), median=float(q[1]), q75=float(q[2]))
    return out
