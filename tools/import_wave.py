"""tools/import_wave.py <outdir> <A:B mapping e.g. A=C,B=D> <tests-log>
Copies sub-agent deliverables (patch_<l>.diff, demo_<l>.py) into seeded/<prop>-<label>/ with a skeleton meta.json;
tools/seedall then fills in what the checks report."""
import json, os, re, shutil, sys
sys.path.insert(0, os.path.dirname(__file__))
from seed_meta import NEEDS
from seed_meta2 import NEEDS2
from seed_meta3 import NEEDS3
from seed_meta4 import NEEDS4
from seed_meta5 import NEEDS5
try:
    from seed_meta6 import NEEDS6
except ImportError:
    NEEDS6 = {}
try:
    from seed_meta7 import NEEDS7
except ImportError:
    NEEDS7 = {}
ALL = {**NEEDS, **NEEDS2, **NEEDS3, **NEEDS4, **NEEDS5, **NEEDS6, **NEEDS7}
out, mapping, tlog = sys.argv[1], dict(m.split('=') for m in sys.argv[2].split(',')), sys.argv[3]
tests = {}
for line in open(tlog):
    m = re.match(r"TESTS (C\d\d) (\w) \[(.*)\]", line)
    if m: tests[(m.group(1), m.group(2))] = m.group(3)
root = os.path.join(os.path.dirname(__file__), "..", "seeded")
n = 0
for i in range(1, 21):
    pid = f"C{i:02d}"
    for src_l, dst_l in mapping.items():
        p = f"{out}/{pid}/patch_{src_l}.diff"
        if not os.path.exists(p):
            continue
        sid = f"{pid}-{dst_l}"
        if sid not in ALL:
            print("no metadata for", sid); continue
        if "not kept" in ALL[sid][0]:
            print("not kept:", sid); continue
        t = tests.get((pid, src_l))
        if not t or not t.startswith("150 passed"):
            print("SKIP", sid, "tests:", t); continue
        dst = f"{root}/{sid}"
        os.makedirs(dst, exist_ok=True)
        shutil.copy(p, f"{dst}/patch.diff")
        if os.path.exists(f"{out}/{pid}/patch_{src_l}.orig.diff"):
            shutil.copy(f"{out}/{pid}/patch_{src_l}.orig.diff", f"{dst}/patch.as-delivered.diff")
        shutil.copy(f"{out}/{pid}/demo_{src_l}.py", f"{dst}/demo.py")
        meta = {
            "property": pid, "change": ALL[sid][0], "needs_to_manifest": ALL[sid][1],
            "origin": "written by an independent sub-agent that saw only the property text and a private worktree of the repository",
            "confirmed": {
                "how": "scratch git worktree of /repo HEAD (outside /repo and /verif): demo without the change, patch applied with git apply, demo with the change, repository test-suite with the change (run serially), quick check with VERIF_REPO=<scratch> (tools/seedcheck, tools/seedall)",
                "repository_tests_with_change": t,
            },
        }
        if os.path.exists(f"{out}/{pid}/patch_{src_l}.orig.diff"):
            meta["note"] = "patch ported to the current tree: a later fix: commit touched a context line (original kept as patch.as-delivered.diff)"
        json.dump(meta, open(f"{dst}/meta.json", "w"), indent=1)
        n += 1
print(n, "imported")
