"""C04 - parameter limits are never violated.

Monitors:
 * contract on Bounds.reflect / Bounds.reflect_momenta (class level, so calls made from
   inside the samplers are judged too) against an exact rational reference fold;
 * trace monitor on every argument reaching the user's posterior / gradient and on every
   stored sample, judged against a *shadow model* of the limits in force, maintained by
   the harness along random programs of set_boundaries / remove / set_non_negative /
   save+load calls interleaved with steps;
 * start-point validation.
"""
import os
import tempfile
from fractions import Fraction

import numpy as np

from vmon.rec import digest
from vmon.util import mk_rng, guarded, Raised
from vmon import mc

ID = "C04"
RULE = (
    "seeded boxes (lower = +-1e-6..1e6, width 1e-3..1e6 of any sign/magnitude) x points up to 1e9 widths outside (direct fold "
    "calls); Gibbs / Metropolis limit programs (set_boundaries, remove, set_non_negative on/off, save+load) and PCA / "
    "Hamiltonian / ensemble runs with proposal scales up to 1e6 widths, posteriors finite everywhere; non-trivial = a point "
    "was folded at least once (direct calls) or the proposal scale exceeds the box (runs); distinct = distinct (box, input / program)"
)
ASSUMPTIONS = [
    "containment and fold equality are judged at 8 ulp of the larger of |point|, |lower|, |upper| (the subtraction point - lower is rounded once)",
    "momentum sign is compared only when the exact unfolded point is farther than that tolerance from every wall image",
]
TIMEOUT = {"quick": 400, "thorough": 2400}
REQUIRED = {"fold:direct_calls": 2000, "fold:multi_wrap": 500, "fold:from_samplers": 2000, "posterior_points_checked": 20000,
            "gradient_points_checked": 2000, "limit_programs": 30, "limit_ops:set_non_negative_off_after_boundaries": 3,
            "limit_ops:reload": 8, "start_validation_checks": 20, "momentum_sign_checks": 1000, "trajectory:with_folds": 300, "gibbs_proposals:judged": 5000, "gibbs_proposals:folded_from_below": 200}


def jobs(tier, seed):
    n_jobs = 16 if tier == "quick" else 32
    out = [{"name": f"lim-{j}", "seed": seed, "j": j, "n_direct": 200 if tier == "quick" else 800,
             "n_gibbs": 10 if tier == "quick" else 45, "n_box": 10 if tier == "quick" else 45} for j in range(n_jobs)]
    if tier == "thorough":
        out.append({"name": "repo-tests", "seed": seed, "j": 999, "mode": "repo_tests"})
    return out


# ------------------------------------------------------------------ exact reference fold
def ref_fold(theta, lo, hi):
    """Exact image of float theta under reflection into [lo, hi]; returns (image as Fraction, fold count, distance to nearest wall image)."""
    t, a, b = Fraction(float(theta)), Fraction(float(lo)), Fraction(float(hi))
    w = b - a
    d = t - a
    q = d // w  # floor
    r = d - q * w
    img = a + r if q % 2 == 0 else b - r
    wall_dist = min(r, w - r)
    return img, int(q), wall_dist


def tol_for(theta, lo, hi):
    return 8 * np.spacing(max(abs(float(theta)), abs(float(lo)), abs(float(hi)), 1e-300))


class FoldMonitor:
    """Post-condition for Bounds.reflect / reflect_momenta."""

    def __init__(self, rec):
        self.rec = rec
        self.source = "direct"
        self.budget = 4000  # exact-arithmetic judgements per job (the rest are containment-only)

    def judge(self, bounds, theta, out, refl=None):
        rec = self.rec
        theta = np.atleast_1d(np.asarray(theta, float))
        out = np.atleast_1d(np.asarray(out, float))
        lo = np.atleast_1d(np.asarray(bounds.lower, float))
        hi = np.atleast_1d(np.asarray(bounds.upper, float))
        rec.count("fold:" + ("direct_calls" if self.source == "direct" else "from_samplers"))
        if out.shape != theta.shape:
            rec.violation("fold-shape", f"reflect returned shape {out.shape} for input {theta.shape}", {"source": self.source})
            return
        scale = np.maximum(np.maximum(np.abs(theta), np.abs(lo)), np.abs(hi))
        tol = 8 * np.spacing(scale)
        inside = (out >= lo - tol) & (out <= hi + tol)
        if not inside.all():
            i = int(np.nonzero(~inside)[0][0])
            rec.violation("fold-outside-limits", f"reflect({theta[i]!r}) = {out[i]!r} is outside [{lo[i]!r}, {hi[i]!r}] ({self.source})",
                          {"theta": theta, "lower": lo, "upper": hi, "out": out})
            return
        rec.counters["oracle_evaluations"] += 1
        if self.budget <= 0:
            return
        self.budget -= 1
        for i in range(theta.size):
            if not np.isfinite(theta[i]):
                continue
            img, q, wall = ref_fold(theta[i], lo[i], hi[i])
            w = hi[i] - lo[i]
            if abs(q) >= 2:
                rec.count("fold:multi_wrap")
            t_i = float(tol[i])
            if t_i < w:  # otherwise rounding exceeds the box and only containment is meaningful
                err = abs(Fraction(float(out[i])) - img)
                if q == 0 and lo[i] <= theta[i] <= hi[i]:
                    ok = err <= Fraction(t_i)
                    rec.check(bool(ok), "fold-not-identity-inside",
                              lambda: f"reflect({theta[i]!r}) = {out[i]!r} for a point inside [{lo[i]!r}, {hi[i]!r}] ({self.source})",
                              {"theta": theta[i], "lower": lo[i], "upper": hi[i]})
                else:
                    # near a wall image the float computation may legitimately land on the mirror side: distance to the
                    # exact image is then at most 2*(distance to the wall) + rounding
                    ok = err <= Fraction(t_i) + 2 * min(wall, Fraction(t_i))
                    rec.check(bool(ok), "fold-not-symmetric",
                              lambda: f"reflect({theta[i]!r}) = {out[i]!r}; the symmetric fold into [{lo[i]!r}, {hi[i]!r}] is {float(img)!r} ({q} folds, {self.source})",
                              {"theta": theta[i], "lower": lo[i], "upper": hi[i], "folds": q})
            if refl is not None:
                rf = np.atleast_1d(np.asarray(refl, float))
                if rf.shape == theta.shape and wall > Fraction(t_i):
                    rec.count("momentum_sign_checks")
                    want = 1.0 if q % 2 == 0 else -1.0
                    rec.check(rf[i] == want, "momentum-flip-parity",
                              lambda: f"reflect_momenta({theta[i]!r}) in [{lo[i]!r}, {hi[i]!r}]: momentum factor {rf[i]!r} after {q} folds ({self.source})",
                              {"theta": theta[i], "lower": lo[i], "upper": hi[i], "folds": q})


class LimitWatcher:
    """Posterior / gradient wrapper judging every evaluation point against the shadow limits."""

    def __init__(self, rec, fn, d, name, what="posterior"):
        self.rec, self.fn, self.name, self.what = rec, fn, name, what
        self.lo = np.full(d, -np.inf)
        self.hi = np.full(d, np.inf)
        self.active = True
        self.ctx = {}

    def judge(self, t, what):
        t = np.asarray(t, float)
        scale = np.maximum(np.maximum(np.abs(np.where(np.isfinite(self.lo), self.lo, 0)), np.abs(np.where(np.isfinite(self.hi), self.hi, 0))), 1e-300)
        tol = 4 * np.spacing(scale)
        bad = (t < self.lo - tol) | (t > self.hi + tol) | ~np.isfinite(t)
        self.rec.count("posterior_points_checked" if what == "posterior" else "gradient_points_checked" if what == "gradient" else "stored_samples_checked")
        if bad.any():
            i = int(np.nonzero(bad)[0][0])
            self.rec.violation("limit-violated", f"{self.name}: {what} coordinate {i} = {t[i]!r} outside the limits in force [{self.lo[i]!r}, {self.hi[i]!r}]",
                               {**self.ctx, "point": t, "lower": self.lo, "upper": self.hi, "where": what})
            return False
        self.rec.counters["oracle_evaluations"] += 1
        return True

    def __call__(self, t):
        if self.active:
            self.judge(t, self.what)
        return self.fn(t)


class RngProxy:
    """Stands in for a Parameter's generator and records what normal() returned: the raw, unfolded proposal is then an observed
    quantity.  Everything else (bit_generator, other draws) is the real generator's."""

    def __init__(self, inner):
        self._inner = inner
        self.normals = []

    def normal(self, *a, **k):
        v = self._inner.normal(*a, **k)
        self.normals.append(v)
        return v

    def __getattr__(self, name):
        return getattr(self._inner, name)


class ProposalMonitor:
    """Post-condition on the 1-D proposal functions of the Gibbs Parameter: the value handed back is the observed raw normal draw
    brought into the limits the harness knows to be in force (shadow model) by the identity / the symmetric fold / the fold at zero.
    Judged only when exactly one scalar normal draw was observed during the call (otherwise counted as not judged)."""

    def __init__(self, rec):
        self.rec = rec
        self.limits = {}     # id(Parameter) -> (lower, upper) in force according to the harness
        self.ctx = {}
        self.budget = 6000

    def pre(self, par):
        if isinstance(par.rng, RngProxy):
            del par.rng.normals[:]

    def post(self, result, par):
        if not isinstance(par.rng, RngProxy) or id(par) not in self.limits:
            return
        if len(par.rng.normals) != 1 or np.ndim(par.rng.normals[0]) != 0:
            self.rec.count("gibbs_proposals:not_judged")
            return
        raw = float(par.rng.normals[0])
        lo, hi = self.limits[id(par)]
        out = float(result)
        self.rec.count("gibbs_proposals:judged")
        if np.isinf(lo) and np.isinf(hi):
            ok, want = out == raw, raw
        elif np.isinf(hi):        # non-negativity only: fold at zero
            want = abs(raw - lo) + lo
            ok = abs(out - want) <= 4 * np.spacing(max(abs(raw), 1e-300))
        else:
            if raw < lo or raw > hi:
                self.rec.count("gibbs_proposals:folded")
            if self.budget <= 0:
                return
            self.budget -= 1
            img, q, wall = ref_fold(raw, lo, hi)
            t_ = tol_for(raw, lo, hi)
            want = float(img)
            err = abs(Fraction(out) - img)
            ok = err <= Fraction(t_) + 2 * min(wall, Fraction(t_)) if t_ < hi - lo else (lo - t_ <= out <= hi + t_)
            if raw < lo:
                self.rec.count("gibbs_proposals:folded_from_below")
        self.rec.check(bool(ok), "fold-not-symmetric",
                       lambda: f"Gibbs proposal: the raw draw {raw!r} came back as {out!r}; the symmetric fold into the limits in force [{lo!r}, {hi!r}] is {want!r}",
                       {**self.ctx, "raw": raw, "lower": lo, "upper": hi})


class TrajectoryMonitor:
    """Post-condition on HamiltonianChain.bounded_leapfrog.  While the trajectory runs, the gradient callable of the chain is
    wrapped so that every position the integrator visits (and the gradient it obtained there) is recorded.  Afterwards the
    harness carries the momentum along those observed positions with its own fold: from each observed position the next raw
    position is predicted, folded, and must be the next observed position; a momentum component is flipped exactly when its
    coordinate was folded an odd number of times in that step; the momentum handed back must be the one so obtained.
    Re-synchronising on the observed positions keeps the comparison free of the chaotic error growth of long trajectories.
    Steps that touch a wall image within 1e-7 widths are ambiguous in floating point: the trajectory is skipped (counted)."""

    def __init__(self, rec):
        self.rec = rec
        self.pending = {}
        self.ctx = {}

    def pre(self, ch, t, r, n_steps):
        inner = ch.grad
        visited = []

        def recording_grad(x, inner=inner, visited=visited):
            g = inner(x)
            visited.append((np.array(x, float), np.array(g, float)))
            return g

        self.pending[id(ch)] = (np.array(t, float), np.array(r, float), int(n_steps), float(ch.ES.epsilon), inner, visited)
        ch.grad = recording_grad

    def post(self, result, ch, t, r, n_steps):
        if id(ch) not in self.pending:
            return
        t0, r0, n, eps, inner, visited = self.pending.pop(id(ch))
        ch.grad = inner
        if len(visited) != n + 1 or not np.array_equal(visited[0][0], t0):
            self.rec.count("trajectory:skipped_unexpected_gradient_calls")
            return
        lo, hi = np.asarray(ch.bounds.lower, float), np.asarray(ch.bounds.upper, float)
        w = hi - lo
        rs = ch.inv_temp * eps
        rr = r0 + 0.5 * rs * visited[0][1]
        bounced = 0
        for k in range(1, n + 1):
            raw = visited[k - 1][0] + eps * np.asarray(ch.mass.get_velocity(rr), float)
            d = raw - lo
            q = np.floor(d / w)
            rem = d - q * w
            if np.any(np.minimum(rem, w - rem) < 1e-7 * w) or not np.all(np.isfinite(raw)):
                self.rec.count("trajectory:skipped_ambiguous")
                return
            odd = (q % 2) != 0
            img = np.where(odd, hi - rem, lo + rem)
            bounced += int(np.count_nonzero(q != 0))
            tol = 1e-7 * w + 64 * np.spacing(np.abs(raw))
            if not self.rec.check(bool(np.all(np.abs(img - visited[k][0]) <= tol)), "trajectory-position",
                                  lambda: f"bounded trajectory, step {k} of {n}: from {visited[k - 1][0]} with momentum {rr} the integrator went to {visited[k][0]}; "
                                          f"the folded image of the raw position {raw} is {img}", {**self.ctx, "t0": t0, "r0": r0, "n_steps": n, "epsilon": eps}):
                return
            rr = np.where(odd, -rr, rr) + (rs if k < n else 0.5 * rs) * visited[k][1]
        self.rec.count("trajectory:reintegrated")
        if bounced:
            self.rec.count("trajectory:with_folds")
        t_lib, r_lib = np.asarray(result[0], float), np.asarray(result[1], float)
        scale_r = np.abs(rr) + np.abs(r0).max() + rs * max(np.abs(g).max() for _, g in visited) + 1e-300
        ok = bool(np.array_equal(t_lib, visited[n][0]) and np.all(np.abs(r_lib - rr) <= 1e-9 * scale_r))
        self.rec.check(ok, "trajectory-momentum-parity",
                       lambda: f"bounded trajectory of {n} steps ({bounced} folded coordinates): the library hands back position {t_lib} with momentum {r_lib}; carrying the momentum along "
                               f"the observed positions with a flip for every odd fold count gives {rr} (last observed position {visited[n][0]})",
                       {**self.ctx, "t0": t0, "r0": r0, "n_steps": n, "epsilon": eps})


def random_box(rng, d):
    mag = 10.0 ** rng.uniform(-6, 6, size=d)
    lo = rng.choice([-1.0, 1.0, 0.0], size=d, p=[0.45, 0.45, 0.1]) * mag
    width = 10.0 ** rng.uniform(-3, 6, size=d)
    # keep the box resolvable in floating point
    width = np.maximum(width, 64 * np.spacing(np.abs(lo)) + 1e-300)
    return lo, lo + width


def run_job(job, rec):
    if job.get("mode") == "repo_tests":
        from vmon import repotests

        return repotests.run(rec, ID)
    from inference.mcmc import Bounds, GibbsChain, PcaChain, HamiltonianChain, EnsembleSampler
    from inference.mcmc.gibbs import MetropolisChain
    from vmon.contracts import attach

    rng = mk_rng(job["seed"], "C04", job["j"])
    fm = FoldMonitor(rec)
    attach(Bounds, "reflect", post=lambda out, self, theta: fm.judge(self, theta, out))
    attach(Bounds, "reflect_momenta", post=lambda out, self, theta: fm.judge(self, theta, out[0], out[1]))
    tm = TrajectoryMonitor(rec)
    attach(HamiltonianChain, "bounded_leapfrog", pre=tm.pre, post=tm.post)
    from inference.mcmc.gibbs import Parameter

    pm = ProposalMonitor(rec)
    for name_ in ("standard_proposal", "abs_proposal", "boundary_proposal"):
        attach(Parameter, name_, pre=pm.pre, post=pm.post)

    # ------------------------------------------------ direct calls of the fold map
    for c in range(job["n_direct"]):
        d = int(rng.choice([1, 2, 5]))
        lo, hi = random_box(rng, d)
        b = guarded(Bounds, lower=lo.copy(), upper=hi.copy())
        if isinstance(b, Raised):
            rec.violation("raised", f"Bounds({lo}, {hi}) raised {b!r}", {"lower": lo, "upper": hi})
            continue
        w = hi - lo
        for rep in range(6):
            kind = rng.choice(["inside", "edge", "near", "far", "huge"])
            if kind == "inside":
                t = lo + w * rng.uniform(0, 1, size=d)
            elif kind == "edge":
                t = np.where(rng.random(d) < 0.5, lo, hi) + w * rng.integers(-3, 4, size=d)
            elif kind == "near":
                t = lo + w * rng.uniform(-1.5, 2.5, size=d)
            elif kind == "far":
                t = lo + w * rng.uniform(-40, 40, size=d)
            else:
                t = lo + w * rng.normal(size=d) * 10.0 ** rng.uniform(2, 9, size=d)
            rec.context = {"direct": c, "lower": lo, "upper": hi, "theta": t}
            rec.case(digest(lo, hi, t), nontrivial=bool(np.any((t < lo) | (t > hi))))
            fm.source = "direct"
            r1 = guarded(b.reflect, t.copy())
            r2 = guarded(b.reflect_momenta, t.copy())
            if isinstance(r1, Raised) or isinstance(r2, Raised):
                rec.violation("raised", f"reflect / reflect_momenta raised {r1!r} / {r2!r}", rec.context)
                continue
            rec.check(np.array_equal(np.asarray(r1), np.asarray(r2[0])), "reflect-vs-reflect_momenta", "reflect and reflect_momenta disagree on the position", rec.context)
            if c == 0 and rep == 0:
                rec.sample({"lower": lo, "upper": hi, "theta": t, "folded": r1})
        # start-point validation
        outside = lo + w * np.where(rng.random(d) < 0.5, -0.3, 1.3)
        rec.count("start_validation_checks")
        v = guarded(b.validate_start_point, outside)
        rec.check(isinstance(v, Raised) and isinstance(v.exc, ValueError), "start-validation", f"a start point outside the box was accepted: {outside}", {"lower": lo, "upper": hi})
        v = guarded(b.validate_start_point, lo + 0.5 * w)
        rec.check(not isinstance(v, Raised), "start-validation", f"a start point inside the box was rejected: {v!r}", {"lower": lo, "upper": hi})

    fm.source = "sampler"
    tmpdir = tempfile.mkdtemp(prefix="c04-")

    # ------------------------------------------------ Gibbs / Metropolis: programs of limit calls
    for c in range(job["n_gibbs"]):
        kind = "gibbs" if c % 3 else "metropolis"
        cls = GibbsChain if kind == "gibbs" else MetropolisChain
        d = int(rng.choice([1, 2, 3]))
        scale = 10.0 ** rng.uniform(-3, 3)
        centre = np.abs(rng.normal(size=d)) * scale * rng.choice([0.3, 1, 50]) + 0.2 * scale
        target = mc.GaussTarget(centre * rng.uniform(0.5, 1.5), np.eye(d) * scale**2)
        W = LimitWatcher(rec, target, d, kind)
        sig = scale * 10.0 ** rng.uniform(-1, 6, size=d)
        ch = cls(posterior=W, start=centre.copy(), widths=sig, display_progress=False)
        mc.seed_sampler(ch, int(rng.integers(2**31)))
        shadow_b = [None] * d   # boundaries in force
        shadow_n = [False] * d  # non-negativity in force
        ops_log = []
        rec.count("limit_programs")
        ctx = {"program": c, "kind": kind, "d": d, "scale": scale, "sigma": sig}
        W.ctx = ctx
        rec.context = ctx

        def refresh():
            pm.limits.clear()
            pm.ctx = ctx
            for i in range(d):
                lo_i, hi_i = -np.inf, np.inf
                if shadow_b[i] is not None:
                    lo_i, hi_i = shadow_b[i]
                if shadow_n[i]:
                    lo_i = max(lo_i, 0.0)
                W.lo[i], W.hi[i] = lo_i, hi_i
                par = ch.params[i]
                if not isinstance(par.rng, RngProxy):
                    par.rng = RngProxy(par.rng)      # (again after a reload: the parameters are new objects then)
                pm.limits[id(par)] = (float(lo_i), float(hi_i))

        failed = False
        for step in range(int(rng.integers(4, 11))):
            i = int(rng.integers(d))
            cur = float(ch.get_last()[i])
            op = str(rng.choice(["set_boundaries", "set_boundaries", "remove", "nonneg_on", "nonneg_off", "reload", "refused"]))
            if op == "refused":
                # requests the library refuses with a warning (lower >= upper, a non-boolean switch) must leave the limits in force untouched
                import warnings

                with warnings.catch_warnings():
                    warnings.simplefilter("ignore")
                    if rng.random() < 0.7:
                        wdt = scale * 10.0 ** rng.uniform(-2, 1)
                        a_ = cur + wdt * rng.uniform(-1, 1)
                        r = guarded(ch.set_boundaries, i, (a_ + (wdt if rng.random() < 0.7 else 0.0), a_))
                    else:
                        r = guarded(ch.set_non_negative, i, int(not shadow_n[i]))
            elif op == "set_boundaries":
                wdt = scale * 10.0 ** rng.uniform(-2, 1)
                lo_i = cur - wdt * rng.uniform(0.05, 0.95)
                if rng.random() < 0.3 or shadow_n[i]:
                    lo_i = max(lo_i, -0.5 * wdt) if not shadow_n[i] else lo_i  # may straddle zero
                hi_i = lo_i + wdt
                if shadow_n[i] and hi_i <= 0:
                    continue  # contradictory request: excluded
                if not (lo_i <= cur <= hi_i) or (shadow_n[i] and cur < 0):
                    continue
                r = guarded(ch.set_boundaries, i, (lo_i, hi_i))
                shadow_b[i] = (lo_i, hi_i)
            elif op == "remove":
                r = guarded(ch.set_boundaries, i, None, remove=True)
                shadow_b[i] = None
            elif op == "nonneg_on":
                if cur < 0 or (shadow_b[i] is not None and shadow_b[i][1] <= 0):
                    continue
                r = guarded(ch.set_non_negative, i, True)
                shadow_n[i] = True
            elif op == "nonneg_off":
                r = guarded(ch.set_non_negative, i, False)
                if shadow_b[i] is not None:
                    rec.count("limit_ops:set_non_negative_off_after_boundaries")
                shadow_n[i] = False
            else:
                path = os.path.join(tmpdir, f"g{c}_{step}.npz")
                r = guarded(ch.save, path)
                if not isinstance(r, Raised):
                    st = mc.rng_states(ch)
                    r = guarded(cls.load, path, posterior=W)
                    if not isinstance(r, Raised):
                        ch = r
                        mc.set_rng_states(ch, st)
                        rec.count("limit_ops:reload")
            ops_log.append((op, i))
            rec.count("limit_ops:" + op)
            if isinstance(r, Raised):
                rec.violation("raised", f"{kind}: {op} raised {r!r} after {ops_log}", ctx)
                failed = True
                break
            refresh()
            W.ctx = {**ctx, "ops": list(ops_log)}
            n0 = int(ch.chain_length)
            r = guarded(lambda: [ch.take_step() for _ in range(int(rng.integers(5, 40)))])
            if isinstance(r, Raised):
                rec.violation("raised", f"{kind}: take_step raised {r!r} after {ops_log}", ctx)
                failed = True
                break
            s = np.asarray(ch.get_sample(burn=n0, thin=1), float)
            for row in s:
                if not W.judge(row, "stored sample"):
                    failed = True
                    break
            if failed:
                break
        big = bool(np.any(sig > 10 * scale))
        rec.case(digest(kind, d, ops_log, sig), nontrivial=big)
        if c < 1:
            rec.sample({**ctx, "ops": ops_log})

    # ------------------------------------------------ PCA / Hamiltonian / ensemble with a box given at construction
    for c in range(job["n_box"]):
        kind = ["pca", "hmc", "ensemble", "hmc_nograd"][(c + job["j"]) % 4]
        d = int(rng.choice([1, 2, 3]))
        lo, hi = random_box(rng, d)
        hi = lo + np.minimum(hi - lo, np.maximum(np.abs(lo), 1e-6) * 1e6)  # keep width/|lower| moderate so posteriors stay well scaled
        w = hi - lo
        mid = lo + w * rng.uniform(0.3, 0.7, size=d)
        # a broad target: the density is far from negligible outside the box, so nothing hides a violation
        target = mc.GaussTarget(mid, np.diag((w * rng.uniform(0.5, 5, size=d)) ** 2))
        W = LimitWatcher(rec, target, d, kind)
        G = LimitWatcher(rec, target.grad, d, kind, what="gradient")
        W.lo[:], W.hi[:] = lo, hi
        G.lo[:], G.hi[:] = lo, hi
        over = 10.0 ** rng.uniform(0, 6)  # proposal scale in units of the box width
        ctx = {"run": c, "kind": kind, "d": d, "lower": lo, "upper": hi, "overshoot_factor": over}
        W.ctx = G.ctx = tm.ctx = ctx
        rec.context = ctx
        start = lo + w * rng.uniform(0.05, 0.95, size=d)
        try:
            if kind == "pca":
                ch = PcaChain(posterior=W, start=start, widths=w * over, bounds=(lo.copy(), hi.copy()), display_progress=False)
            elif kind in ("hmc", "hmc_nograd"):
                # step size such that a trajectory crosses the box many times; mass scaled to the box
                ch = HamiltonianChain(posterior=W, start=start, grad=G if kind == "hmc" else None, bounds=(lo.copy(), hi.copy()),
                                      inverse_mass=(w * min(over, 30.0)) ** 2 if d > 1 else float((w[0] * min(over, 30.0)) ** 2),
                                      epsilon=float(rng.uniform(0.05, 0.5)), display_progress=False)
            else:
                pos = lo + w * rng.uniform(0.02, 0.98, size=(max(2 * d + 2, 6), d))
                ch = EnsembleSampler(posterior=W, starting_positions=pos, alpha=float(min(1.5 + over, 200.0)), bounds=(lo.copy(), hi.copy()), display_progress=False)
        except Exception as exc:  # noqa: BLE001
            rec.violation("raised", f"{kind}: construction with an inside start raised {exc!r}", ctx)
            continue
        mc.seed_sampler(ch, int(rng.integers(2**31)))
        rec.case(digest(kind, lo, hi, over), nontrivial=over > 1)
        if c < 1:
            rec.sample(ctx)
        # construction with a start outside the box must be refused
        rec.count("start_validation_checks")
        bad_start = lo + w * np.where(np.arange(d) == 0, 1.2, 0.5)
        W.active = False
        if kind == "pca":
            v = guarded(PcaChain, posterior=W, start=bad_start, widths=w, bounds=(lo.copy(), hi.copy()), display_progress=False)
        elif kind == "ensemble":
            bp = pos.copy()
            bp[0] = bad_start
            v = guarded(EnsembleSampler, posterior=W, starting_positions=bp, bounds=(lo.copy(), hi.copy()), display_progress=False)
        else:
            v = guarded(HamiltonianChain, posterior=W, start=bad_start, grad=target.grad, bounds=(lo.copy(), hi.copy()), display_progress=False)
        W.active = True
        rec.check(isinstance(v, Raised), "start-validation", f"{kind}: a start point outside the bounds was accepted", ctx)

        n_steps = 60 if kind == "pca" else 12 if kind.startswith("hmc") else 15
        if kind == "pca":
            # PcaChain inherits the Gibbs limit setters but only warns when they are used: the bounds given at construction stay in force
            import warnings

            with warnings.catch_warnings():
                warnings.simplefilter("ignore")
                r1 = guarded(ch.set_boundaries, 0, (float(lo[0] - 5 * w[0]), float(hi[0] + 5 * w[0])))
                r2 = guarded(ch.set_non_negative, 0, True)
                r3 = guarded(ch.set_boundaries, 0, None, remove=True)
            rec.count("limit_ops:pca_unavailable_setters")
            if any(isinstance(v, Raised) for v in (r1, r2, r3)):
                rec.violation("raised", f"pca: the unavailable limit setters raised {r1!r} / {r2!r} / {r3!r}", ctx)
        for phase in range(2):
            if kind == "ensemble":
                r = guarded(ch.advance, n_steps)
            else:
                r = guarded(lambda: [ch.take_step() for _ in range(n_steps)])
            if isinstance(r, Raised):
                rec.violation("raised", f"{kind}: stepping raised {r!r}", ctx)
                break
            s = np.asarray(ch.get_sample(burn=0, thin=1), float)
            if not all(W.judge(row, "stored sample") for row in s[-400:]):
                break
            if phase == 0:
                # limits given at construction stay in force across save + load
                path = os.path.join(tmpdir, f"b{c}.npz")
                r = guarded(ch.save, path)
                if isinstance(r, Raised):
                    rec.violation("raised", f"{kind}: save raised {r!r}", ctx)
                    break
                st = mc.rng_states(ch)
                kwl = {"posterior": W}
                if kind == "hmc":
                    kwl["grad"] = G
                r = guarded(type(ch).load, path, **kwl)
                if isinstance(r, Raised):
                    rec.violation("raised", f"{kind}: load raised {r!r}", ctx)
                    break
                ch = r
                mc.set_rng_states(ch, st)
                rec.count("limit_ops:reload")
                W.ctx = G.ctx = {**ctx, "after": "save+load"}

    try:
        for f in os.listdir(tmpdir):
            os.remove(os.path.join(tmpdir, f))
        os.rmdir(tmpdir)
    except OSError:
        pass
