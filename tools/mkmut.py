#!/usr/bin/env python3
"""tools/mkmut.py <name> <repo-relative-file> <old> <new>  ->  mutants/<name>.patch
Builds a unified diff against /repo's current working tree without touching /repo."""
import difflib, sys, os
name, rel, old, new = sys.argv[1:5]
src = open(os.path.join("/repo", rel)).read()
assert src.count(old) == 1, f"{src.count(old)} occurrences of old text"
dst = src.replace(old, new)
diff = difflib.unified_diff(src.splitlines(True), dst.splitlines(True), f"a/{rel}", f"b/{rel}")
out = os.path.join(os.path.dirname(os.path.dirname(os.path.abspath(__file__))), "mutants", name + ".patch")
open(out, "w").write("".join(diff))
print(out)
