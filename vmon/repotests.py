"""The repository's own test-suite as one more workload (thorough tier): the tests are run in-process
with a property's contracts attached at class level, so every call the tests make is judged by the same
oracles as the generated workloads.  A contract that fires here is either a harness fault or a defect
the tests do not assert; nothing the tests themselves assert is relied upon.
"""
import contextlib
import io
import os

import numpy as np

from vmon.boot import repo_path


def _run_pytest(paths):
    import pytest

    sink = io.StringIO()
    args = ["-q", "-p", "no:cacheprovider", "--no-header", "-W", "ignore"] + paths
    cwd = os.getcwd()
    os.chdir(repo_path())
    try:
        with contextlib.redirect_stdout(sink), contextlib.redirect_stderr(sink):
            code = pytest.main(args)
    finally:
        os.chdir(cwd)
    return int(code), sink.getvalue()[-1500:]


def run(rec, prop):
    """Attach the contracts of `prop`, run the relevant test files, record what the contracts saw."""
    from vmon.contracts import attach

    atts = []
    tests = []
    ctx = {"workload": "repository test-suite with contracts on", "property": prop}

    if prop == "C03":
        from inference.mcmc.gibbs import MetropolisChain, GibbsChain
        from inference.mcmc.pca import PcaChain
        from inference.mcmc.hmc import HamiltonianChain

        def post_step(result, self):
            try:
                last = np.asarray(self.get_last(), float)
                want = self.posterior(last) * self.inv_temp
            except Exception:  # noqa: BLE001 - a test double without a usable posterior
                return
            rec.count("repo_tests:take_step_judged")
            got = self.probs[-1]
            rec.check(len(self.probs) == self.chain_length and abs(got - want) <= 1e-12 * max(abs(want), 1e-300), "probability-not-of-sample",
                      lambda: f"{type(self).__name__} (during the repository tests): after take_step the last recorded log-probability is {got!r}, "
                              f"the log-density of the last sample / T is {want!r}; {len(self.probs)} probabilities for chain_length {self.chain_length}", ctx)

        for cls in (MetropolisChain, GibbsChain, PcaChain, HamiltonianChain):
            if "take_step" in cls.__dict__:
                atts.append(attach(cls, "take_step", post=post_step))
        tests = ["tests/mcmc/test_gibbs.py", "tests/mcmc/test_pca.py", "tests/mcmc/test_hamiltonian.py"]

    elif prop == "C04":
        from inference.mcmc import Bounds
        from vmon.props.c04 import FoldMonitor

        fm = FoldMonitor(rec)
        fm.source = "sampler"
        atts.append(attach(Bounds, "reflect", post=lambda out, self, theta: fm.judge(self, theta, out)))
        atts.append(attach(Bounds, "reflect_momenta", post=lambda out, self, theta: fm.judge(self, theta, out[0], out[1])))
        tests = ["tests/mcmc"]

    elif prop == "C05":
        from inference import likelihoods as lk
        from vmon.props.c05 import ref_terms

        names = {lk.GaussianLikelihood: "Gaussian", lk.CauchyLikelihood: "Cauchy", lk.LogisticLikelihood: "Logistic"}

        def post_call(result, self, theta):
            name = names.get(type(self))
            if name is None:
                return
            s = self.gamma if name == "Cauchy" else self.sigma
            terms = ref_terms(name, np.atleast_1d(self.y), np.atleast_1d(self.model(theta)), np.atleast_1d(s))
            rec.count("repo_tests:likelihood_calls_judged")
            tol = 64 * np.finfo(float).eps * (np.abs(terms).sum() + np.abs(np.log(np.atleast_1d(s))).sum() + terms.size)
            rec.check(abs(float(result) - float(terms.sum())) <= tol, "value",
                      lambda: f"{name}Likelihood (during the repository tests): {float(result)!r} != sum of reference log-pdfs {float(terms.sum())!r}", ctx)

        atts.append(attach(lk.Likelihood, "__call__", post=post_call))
        tests = ["tests/test_likelihoods.py", "tests/test_posterior.py"]

    elif prop == "C13":
        from inference.pdf import hdi as hdi_mod
        from vmon.props.c13 import oracle_1d

        def post_hdi(result, sample, fraction):
            a = np.asarray(sample)
            if a.ndim == 1 and a.size >= 2 and 0 < fraction < 1:
                rec.count("repo_tests:sample_hdi_judged")
                oracle_1d(rec, a.astype(float), float(fraction), result, "f32" if a.dtype == np.float32 else "repo-tests")

        atts.append(attach(hdi_mod, "sample_hdi", post=post_hdi))
        # modules that did `from inference.pdf.hdi import sample_hdi` keep the original binding; the tests call it
        # through tests.test_pdf's own import, which is resolved after the attachment (fresh process)
        tests = ["tests/test_pdf.py"]

    elif prop == "C15":
        from inference.mcmc.base import MarkovChain
        from inference.mcmc.ensemble import EnsembleSampler

        state = {}

        def pre_adv(self, *a, **k):
            state[id(self)] = int(self.chain_length)

        def post_adv(result, self, *a, **k):
            m = a[0] if a else next(iter(k.values()))
            before = state.pop(id(self), None)
            if before is None:
                return
            per = self.n_walkers if isinstance(self, EnsembleSampler) else 1
            rec.count("repo_tests:advance_judged")
            n_s = np.asarray(self.get_sample(burn=0, thin=1)).shape[0]
            n_p = np.asarray(self.get_probabilities(burn=0, thin=1)).shape[0]
            want = before + m * per
            rec.check((int(self.chain_length), n_s, n_p) == (want, want, want), "wrong-number-of-samples",
                      lambda: f"{type(self).__name__} (during the repository tests): after advance({m}) chain_length / samples / log-probabilities = "
                              f"{(int(self.chain_length), n_s, n_p)}, expected {want}", ctx)

        atts.append(attach(MarkovChain, "advance", pre=pre_adv, post=post_adv))
        atts.append(attach(EnsembleSampler, "advance", pre=pre_adv, post=post_adv))
        tests = ["tests/mcmc/test_gibbs.py", "tests/mcmc/test_pca.py", "tests/mcmc/test_hamiltonian.py", "tests/mcmc/test_ensemble.py"]
    else:
        return

    code, tail = guarded_pytest(tests)
    rec.count("repo_tests:runs")
    rec.note("repo_tests", {"property": prop, "pytest_exit": code, "contract_evaluations": int(sum(a.calls for a in atts))})
    rec.count("repo_tests:contract_evaluations", int(sum(a.calls for a in atts)))
    # The tests' own pass/fail is not an oracle here (a slower, contract-laden run may trip their deadlines);
    # what matters is that the contracts were exercised at all.
    if sum(a.calls for a in atts) == 0:
        rec.inconclusive_because(f"repository tests under contracts: no contract was evaluated (pytest exit {code}): {tail[-300:]}")
    for a in atts:
        a.detach()


def guarded_pytest(tests):
    try:
        return _run_pytest(tests)
    except SystemExit as exc:  # pragma: no cover
        return int(exc.code or 0), ""
